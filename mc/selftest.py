"""Explorer self tests: enumeration counts against closed forms, reference-model sanity, evidence schema validation."""
import json, os, sys, glob, itertools
from mc import explore
from mc.ref import abbr_model as M, math_ref

ROOT = os.path.dirname(os.path.dirname(os.path.abspath(__file__)))


def main(argv):
    ok = True

    def check(name, cond):
        nonlocal ok
        print(('ok   ' if cond else 'FAIL ') + name)
        ok = ok and cond

    # E1: shards partition alphabet^{<=L}
    for n, L, pl in ((3, 4, 2), (5, 3, 1), (4, 2, 2), (2, 1, 2)):
        alpha = [chr(97 + i) for i in range(n)]
        seen = []
        for sh in explore.strings_shards(alpha, L, pl):
            seen += [''.join(t) for t in explore.strings_of_shard(alpha, sh)]
        check('E1 partition n=%d L=%d' % (n, L), len(seen) == len(set(seen)) == explore.count_strings(n, L))
    # E3: neighbourhood radius 1 size
    nb = explore.neighbourhood('ab', ['a', 'b', 'c'], 1)
    brute = set()
    for k in range(0, 4):
        for t in itertools.product('abc', repeat=k):
            w = ''.join(t)
            if lev(w, 'ab') <= 1:
                brute.add(w)
    check('E3 radius-1 neighbourhood equals brute force', set(nb) == brute)
    nb2 = explore.neighbourhood('ab', ['a', 'b', 'c'], 2)
    brute2 = set(''.join(t) for k in range(0, 5) for t in itertools.product('abc', repeat=k) if lev(''.join(t), 'ab') <= 2)
    check('E3 radius-2 neighbourhood equals brute force', set(nb2) == brute2)
    # E2: derivations without groups/repeaters: 4^(n-1)
    for n in (1, 2, 3, 4):
        check('E2 chain count n=%d' % n, sum(1 for _ in M.gen_seqs(n, 0, 0)) == 4 ** (n - 1))
    seqs = [M.render(s, ['x%d' % i for i in range(3)]) for s, _ in M.gen_seqs(3, 1, 1)]
    check('E2 derivations render to distinct abbreviations', len(seqs) == len(set(seqs)))
    # deviations lattice size
    sp = {'a': [0, 1], 'b': [0, 1, 2], 'c': [0, 1]}
    check('E4 deviations <=2', len(list(explore.deviations(sp, 2))) == 1 + 4 + (1 * 2 + 1 * 1 + 2 * 1))
    # math reference
    check('math ref 2+3*4', math_ref.expected('2+3*4') == ('value', 14.0))
    check('math ref -7\\2', math_ref.expected('-7\\2') == ('value', -4.0))
    check('math ref malformed', math_ref.expected('1)+(2') == ('malformed',))
    check('math ref zero', math_ref.expected('1/(1-1)') == ('zerodiv',))
    # evidence files validate against the schema (if jsonschema is importable here or via python3-vt)
    schema_path = '/root/.vp/EVIDENCE.schema.json'
    files = sorted(glob.glob(os.path.join(ROOT, 'evidence', '*.json')))
    if os.path.exists(schema_path) and files and 'quick' not in argv:
        try:
            import jsonschema
            schema = json.load(open(schema_path))
            for f in files:
                try:
                    jsonschema.validate(json.load(open(f)), schema)
                    check('evidence schema %s' % os.path.basename(f), True)
                except Exception as e:
                    check('evidence schema %s: %s' % (os.path.basename(f), str(e)[:200]), False)
        except ImportError:
            print('note: jsonschema not importable in this interpreter; run with VERIF_PYTHON=python3-vt to validate evidence')
    return 0 if ok else 2


def lev(a, b):
    d = list(range(len(b) + 1))
    for i, ca in enumerate(a, 1):
        p = d[:]
        d[0] = i
        for j, cb in enumerate(b, 1):
            d[j] = min(p[j] + 1, d[j - 1] + 1, p[j - 1] + (ca != cb))
    return d[len(b)]
