"""Generates /verif/MANIFEST.json from the table below (python3 -m mc.manifest)."""
import json, os

ROOT = os.path.dirname(os.path.dirname(os.path.abspath(__file__)))

CHECKS = {
    'C01': ('explicit enumeration of operator derivations x element kinds x configurations on emmet.expand vs reference tree denotation',
            '4.C01', 'All operator skeletons up to the stated element/group/repeater bounds, all kind assignments and the six '
            'style/format configurations are expanded by the real code and compared event-by-event with a reference denotation; '
            'a composition sweep chains corpora to reach larger trees; a climb sweep covers runs of three and four `^`; the calls of a shard share one cache dict.'),
    'C02': ('explicit enumeration of numbering templates x numbering forms x sites x maxRepeat on emmet.expand vs reference unroller',
            '4.C02', 'Exhaustive over all nesting templates of repeated elements/groups up to the unit bound, 24 numbering forms at 8 sites (element, class, attribute name / value / quoted value / expression value, id, text) and all limits; a JSX pass.'),
    'C03': ('explicit enumeration of attribute-mention sequences x option lattice (<=2 deviations) x syntaxes vs reference merge; payload typing tree',
            '4.C03', 'Exhaustive over mention sequences up to length k and option sets up to 2 deviations, also inside repeaters, after a sibling that carries the other form of the same attributes, on a multi-element alias and on a label that wraps a control; boolean-attribute list explicit / default / empty; payload alphabet up to the unit bound.'),
    'C04': ('typing-tree enumeration of text payloads x host positions and of wrap-line lists x templates on emmet.expand, closed-form oracle',
            '4.C04', 'Exhaustive over payloads up to the unit bound in every host, over all line lists up to the bound and over all multi-line texts (LF / CRLF / CR next to numbering, fields and variables) up to the unit bound under html, pug and haml.'),
    'C05': ('explicit enumeration of stylesheet value sequences x option lattice x syntaxes vs reference rendering (colors compared by value)',
            '4.C05', 'Exhaustive over all 1/2/3-digit hex colors, channel-sweeps of 6-digit colors, number/unit products and value sequences up to the bound; every joined batch goes through a cache primed under wholly different options.'),
    'C06': ('complete enumeration of the built-in stylesheet snippet table x syntaxes x keyword/case forms x scopes x user overrides',
            '4.C06', 'The snippet table is finite and enumerated completely (names split from the raw table by the harness); user-defined snippets of several shapes through the call config, the global config and a primed cache.'),
    'C07': ('typing-tree + edit-neighbourhood enumeration of input strings x configuration list on emmet.expand with exception classifier and watchdog',
            '4.C07', 'All strings up to the stated lengths over a class-representative alphabet under every listed configuration; one table session per stylesheet configuration (every built-in key with numbers and sibling keyword initials through one cache dict); failures that need the session cache are reported and reproduced by replaying the shard.'),
    'C08': ('explicit-state BFS over expand() call histories on shared caller objects with canonical-state deduplication, differential vs fresh interpreter',
            '4.C08', 'Breadth-first search over call histories from a finite operation menu (incl. self-checking sequences in which the caller edits its own objects in place), closed under state equality up to the depth bound.'),
    'C09': ('explicit enumeration of HTML document forests x every caret position vs generator ground truth',
            '4.C09', 'All forests up to the node bound over the node-kind menu, every position; body variants of the non-markup sections; checked calls preceded by calls on ill-formed documents and on a same-length document with other attribute text.'),
    'C10': ('explicit enumeration of CSS rule/declaration forests x layouts x every caret position vs generator ground truth',
            '4.C10', 'All forests up to the node bound, five layouts, every position; all ordered pairs of small rule trees; checked calls preceded by calls on ill-formed text.'),
    'C11': ('typing-tree enumeration of lines x positions x options (consistency) and of embedded abbreviations x contexts (round trip) on extract()',
            '4.C11', 'All lines up to the length bound with every position/option combination; all generated abbreviations in all contexts.'),
    'C12': ('explicit enumeration of abbreviations x formatting-option lattice (<=2 deviations) x syntaxes, differential vs unformatted baseline + indentation oracle',
            '4.C12', 'Exhaustive over derivations up to the element bound and option sets up to 2 deviations; all calls of a shard share one cache dict and the order of the option sets rotates from shard to shard.'),
    'C13': ('explicit enumeration of abbreviations x syntaxes x newline/indent/baseIndent product with recording callbacks, positional oracle',
            '4.C13', 'Every callback invocation of every explored run is checked against the final string.'),
    'C14': ('complete enumeration of built-in markup snippet tables x contexts (alias vs definition) + all user tables over a small name/definition menu with frame-depth probe',
            '4.C14', 'Built-in tables enumerated completely (every name of every raw key); user tables (cyclic included) exhaustively over the menu, with context independence and an in-place edit of the table; malformed definitions behind another alias; the same alias twice (bare / attributed).'),
    'C15': ('explicit enumeration of abbreviations x haml/pug/slim x indent strings vs reference tree and HTML-output tree',
            '4.C15', 'Exhaustive over derivations up to the element bound; multi-line text in all three line-break spellings; the calls of a shard share one cache dict.'),
    'C16': ('typing-tree + edit-neighbourhood enumeration of source strings x every position (incl. out of range) on all scanner/matcher entry points, range well-formedness oracle',
            '4.C16', 'All strings up to the length bound over the HTML/CSS punctuation alphabets, all positions -1..len+1.'),
    'C17': ('explicit enumeration of HTML/CSS document forests x every position on the action helpers vs generator ground truth',
            '4.C17', 'Same generators as C09/C10, extended attribute/declaration menus; select_item_html with its options argument; every stylesheet again with a stray closing brace before its last top-level rule; a weak oracle for sections that contain value-less statements.'),
    'C18': ('typing-tree + edit-neighbourhood enumeration of strings on both tokenizers, tiling invariant',
            '4.C18', 'All strings up to the length bound over both alphabets, both stylesheet modes.'),
    'C19': ('typing-tree enumeration of expression token/character strings on evaluate()/extract() vs AST + exact-rational reference',
            '4.C19', 'All token strings up to the bound, all character strings up to the bound, all extract positions/options.'),
    'C20': ('complete enumeration of the configuration layer lattice (type x syntax x kind x key x layer subsets) vs reference fold, also through expand',
            '4.C20', 'The lattice is finite and enumerated completely in both tiers; every transition is also executed on the live dicts (layer added in place), every state is preceded by a resolution under the other type and expanded through a shared cache.'),
}

NOTE = ('Trusted base: CPython 3.12 (/venv), the enumerators in mc/explore.py and mc/ref/* (self-tested), the reference models and independent '
        'lexers (validated by agreement with the implementation over the whole explored space on the unchanged tree), the alphabets '
        '(one representative per character class of the code). Bounds are constants in mc/props/<id>.py and are reported in the evidence; '
        'behaviour outside the bounds/alphabets is not covered.')


def main():
    have = sorted(f[:-3].upper() for f in os.listdir(os.path.join(ROOT, 'mc', 'props')) if f.startswith('c') and f.endswith('.py'))
    checks = []
    for pid in have:
        tech, ref, text = CHECKS[pid]
        checks.append(dict(
            property_id=pid,
            quick_cmd='./check %s quick' % pid,
            thorough_cmd='./check %s thorough' % pid,
            evidence_file='/verif/evidence/%s.json' % pid,
            replay_cmd_template='./check --replay {path}',
            engine='mc',
            level_claimed=dict(category='model_checking', text='Bounded exhaustive exploration executed directly on the implementation: '
                               + text + ' No sampling; the evidence reports states, transitions, executions and the bounds reached.',
                               design_ref='DESIGN.md §' + ref),
            level_note=NOTE,
            technique=tech,
        ))
    na = [dict(property_id=p, reason='check not built yet in this revision of /verif (planned: DESIGN.md §4.%s)' % p)
          for p in sorted(CHECKS) if p not in have]
    m = dict(
        version=1,
        setup_cmd='./setup.sh',
        hooks=dict(guard='EMMET_VERIF', enable='no source hooks are needed: checks import the working tree of /repo (PYTHONPATH) and observe '
                   'return values, exceptions, callbacks, caller-owned objects and module state by reflection; ./check exports EMMET_VERIF=1',
                   baseline_off_cmd='cd /repo && /venv/bin/python -m pytest -ra -q -p no:cacheprovider --timeout=900',
                   source_commits=[], add_only=True),
        engines=[dict(name='mc', path='/verif/mc', serves_properties=have,
                      kind_free_text='hand-written explicit enumeration explorers (typing tree, derivation tree, edit neighbourhood, '
                      'caret/option lattice, explicit-state BFS) executed on the real Python implementation with reference-model oracles')],
        checks=checks,
        notes='All checks: exit 0 = held on everything explored (KNOWN-FINDING lines for listed open findings), exit 1 + VIOLATION line otherwise, '
              'exit 2 = harness error. Known findings: /verif/known_findings.json. Design: /verif/DESIGN.md.',
        not_applicable=na,
    )
    with open(os.path.join(ROOT, 'MANIFEST.json'), 'w') as f:
        json.dump(m, f, indent=1)
    print('MANIFEST.json: %d checks, %d not yet built' % (len(checks), len(na)))


if __name__ == '__main__':
    main()
