"""Runner for the bounded-exhaustive checks: worker pool, watchdog, violation routing, known findings,
evidence and replay writers.  Usage: see /verif/check.

A property module (mc/props/cNN.py) provides

    ID                      'C07'
    def describe(tier)      -> dict(rule=..., bounds=..., assumptions=[...], nontrivial=..., explanation=...)
    def shards(tier)        -> list of JSON-able shard descriptors (deterministic, non-overlapping)
    def run_shard(shard, ctx, tier)   explores one shard on the real implementation, reports through ctx
    def check_case(case)    -> list of (violation_class, detail) for one stored case (replays, witnesses)
    def repro(case)         -> optional stand-alone python text reproducing the case with emmet only
"""
import os, sys, json, time, signal, hashlib, importlib, random, subprocess, traceback, collections
from concurrent.futures import ProcessPoolExecutor, as_completed
import multiprocessing as mp
from mc import session

ROOT = os.path.dirname(os.path.dirname(os.path.abspath(__file__)))
REPO = os.environ.get('EMMET_REPO', '/repo')
# evaluation runs against seeded changes redirect their output so that committed evidence is never overwritten
EVIDENCE_DIR = os.environ.get('VERIF_EVIDENCE_DIR') or os.path.join(ROOT, 'evidence')
REPLAY_DIR = os.environ.get('VERIF_REPLAY_DIR') or os.path.join(ROOT, 'replays')
OUTCOME_CAP = 400000
TICK = 1.0


class HangError(BaseException):
    "raised inside a worker when one case makes no progress for longer than the limit"


class Ctx:
    """Counters and sinks handed to run_shard().  All numbers in the evidence come from here."""

    def __init__(self, limit):
        self.states = 0            # distinct explorer states visited
        self.transitions = 0       # explorer edges taken
        self.evals = 0             # executions of the implementation
        self.validated = 0         # cases whose reference prediction was compared with the implementation
        self.nontrivial = 0        # distinct non-trivial cases (rule: describe()['nontrivial'])
        self.skipped = collections.Counter()   # cases deliberately left unspecified, by reason
        self.extra = collections.Counter()     # free-form counters per check
        self.outcomes = set()
        self.stateset = set()      # hashes of canonical states (explicit-state searches): the runner counts their union
        self.samples = []
        self.viol = {}             # class -> [count, minimal case, detail, size]
        self.limit = limit
        self._seq = 0
        self._last = -1
        self._stuck = 0.0
        self.current = None

    def tick(self, case=None):
        self._seq += 1
        self.current = case

    def outcome(self, x):
        if len(self.outcomes) < OUTCOME_CAP:
            self.outcomes.add(hash(x))

    def sample(self, x, cap=3):
        if len(self.samples) < cap:
            self.samples.append(x)

    def skip(self, reason, n=1):
        self.skipped[reason] += n

    def violation(self, cls, case, detail=None):
        ent = self.viol.get(cls)
        if ent is None:
            self.viol[cls] = [1, case, detail, len(json.dumps(case, ensure_ascii=False, default=str)), []]
            return
        ent[0] += 1
        if ent[0] < 2000 or ent[0] % 64 == 0:     # bounded effort on very frequent classes
            size = len(json.dumps(case, ensure_ascii=False, default=str))
            if size < ent[3]:
                keep_alternative(ent[4], (ent[3], ent[1], ent[2]))
                ent[1], ent[2], ent[3] = case, detail, size
            else:
                keep_alternative(ent[4], (size, case, detail))

    def export(self):
        return dict(states=self.states, transitions=self.transitions, evals=self.evals, validated=self.validated,
                    nontrivial=self.nontrivial, skipped=dict(self.skipped), extra=dict(self.extra),
                    outcomes=self.outcomes, stateset=self.stateset, samples=self.samples, viol=self.viol)


def keep_alternative(alts, item, cap=4):
    "a few more small witnesses of the same class: tried when the minimal one does not reproduce in a fresh process"
    if len(alts) < cap:
        alts.append(item)
    else:
        worst = max(range(len(alts)), key=lambda i: alts[i][0])
        if item[0] < alts[worst][0]:
            alts[worst] = item


_CTX = None


def _on_tick(signum, frame):
    c = _CTX
    if c is None:
        return
    if c._seq == c._last:
        c._stuck += TICK
        if c._stuck >= c.limit:
            c._stuck = 0.0
            raise HangError()
    else:
        c._last = c._seq
        c._stuck = 0.0


def _worker_init():
    signal.signal(signal.SIGALRM, _on_tick)
    signal.setitimer(signal.ITIMER_REAL, TICK, TICK)
    sys.setrecursionlimit(3000)


_HANGS = 0
_WORKER_SHARDS = []          # the shards this worker process has run so far, in order (state kept by the library survives a shard)


def _run_shard(args):
    global _CTX, _HANGS
    modname, shard, tier, limit = args
    mod = importlib.import_module(modname)
    if _HANGS:
        limit = min(limit, 2.0)          # this worker has already seen a hang: do not wait long for the next one
    ctx = Ctx(limit)
    if _HANGS >= 3:
        ctx.extra['shards_skipped_after_repeated_hangs'] += 1
        return shard, ctx.export(), None
    _CTX = ctx
    err = None
    try:
        session.reset()
        mod.run_shard(shard, ctx, tier)
    except HangError:
        _HANGS += 1
        ctx.violation('hang', ctx.current, 'no progress for %.0f s' % limit)
        ctx.extra['shards_aborted_by_hang'] += 1
    except BaseException as ex:
        # an exception that escapes from library code through the check's own code (an attribute the check reads is missing,
        # an internal helper raises): the library misbehaved in a way the oracle did not anticipate.  That is a violation of the
        # property under check (reported with the case in progress), not a harness error - unless the innermost frame is ours.
        tb = ex.__traceback__
        while tb is not None and tb.tb_next is not None:
            tb = tb.tb_next
        fn = tb.tb_frame.f_code.co_filename if tb is not None else ''
        lib = os.path.join(os.path.realpath(REPO), 'emmet') + os.sep
        if os.path.realpath(fn).startswith(lib) and not isinstance(ex, (KeyboardInterrupt, SystemExit, MemoryError)):
            ctx.violation('library-exception:%s@%s:%s' % (type(ex).__name__, os.path.realpath(fn)[len(lib):], tb.tb_frame.f_code.co_name),
                          ctx.current, traceback.format_exc()[-600:])
            ctx.extra['shards_aborted_by_library_exception'] += 1
        else:
            err = traceback.format_exc()
    finally:
        _CTX = None
    res = ctx.export()
    if res['viol']:
        res['worker_history'] = list(_WORKER_SHARDS[-400:])      # what this worker ran before: needed if the violation depends on it
    _WORKER_SHARDS.append(shard)
    return shard, res, err


def known_findings(pid):
    path = os.path.join(ROOT, 'known_findings.json')
    if not os.path.exists(path):
        return []
    with open(path) as f:
        return [e for e in json.load(f)['findings'] if e['property'] == pid]


def git_state(repo):
    try:
        head = subprocess.run(['git', '-C', repo, 'rev-parse', 'HEAD'], capture_output=True, text=True).stdout.strip()
        dirty = bool(subprocess.run(['git', '-C', repo, 'status', '--porcelain', '--untracked-files=no'],
                                    capture_output=True, text=True).stdout.strip())
        return head, dirty
    except Exception:
        return None, None


def write_replay(pid, cls, case, detail, count, tier, mod):
    os.makedirs(REPLAY_DIR, exist_ok=True)
    h = hashlib.sha1((cls + json.dumps(case, sort_keys=True, default=str)).encode()).hexdigest()[:10]
    path = os.path.join(REPLAY_DIR, '%s-%s.json' % (pid, h))
    doc = dict(property=pid, violation_class=cls, case=case, detail=detail, count_in_sweep=count, tier=tier,
               replay_cmd='./check --replay %s' % os.path.relpath(path, ROOT))
    if hasattr(mod, 'repro'):
        try:
            doc['standalone_script'] = mod.repro(case)
        except Exception:
            pass
    with open(path, 'w') as f:
        json.dump(doc, f, indent=1, ensure_ascii=False, default=str)
    return path


def write_shard_replay(pid, cls, shard, case, detail, count, tier, before=None):
    os.makedirs(REPLAY_DIR, exist_ok=True)
    h = hashlib.sha1((cls + json.dumps(shard, sort_keys=True, default=str)).encode()).hexdigest()[:10]
    path = os.path.join(REPLAY_DIR, '%s-shard-%s.json' % (pid, h))
    doc = dict(property=pid, violation_class=cls, shard=shard, tier=tier, case=case, detail=detail, count_in_sweep=count,
               note='history-dependent violation: the case fails only after the calls made earlier in its shard; the replay re-runs '
                    'the shard (a deterministic call sequence) from its start in a fresh interpreter',
               replay_cmd='./check --replay %s' % os.path.relpath(path, ROOT))
    if before:
        doc['before'] = before
        doc['note'] += '; `before` lists the shards the same worker process had run earlier (state kept by the library survives a shard)'
    with open(path, 'w') as f:
        json.dump(doc, f, indent=1, ensure_ascii=False, default=str)
    return path


def replay_in_fresh_process(path):
    "returns the list of violation classes a fresh interpreter observes for the stored case"
    r = subprocess.run([sys.executable, '-m', 'mc.run', '--replay', path, '--json'], capture_output=True, text=True,
                       cwd=ROOT, timeout=600)
    for line in r.stdout.splitlines():
        if line.startswith('REPLAY-JSON '):
            return json.loads(line[len('REPLAY-JSON '):])
    raise RuntimeError('replay subprocess failed: %s\n%s' % (r.stdout[-2000:], r.stderr[-2000:]))


def load_module(pid):
    import emmet
    assert os.path.realpath(emmet.__file__).startswith(os.path.realpath(REPO) + os.sep), \
        'emmet imported from %s, not from %s' % (emmet.__file__, REPO)
    return importlib.import_module('mc.props.' + pid.lower())


def cmd_replay(argv):
    path = argv[0]
    as_json = '--json' in argv
    with open(path) as f:
        doc = json.load(f)
    pid = doc['property']
    mod = load_module(pid)
    _worker_init()
    global _CTX
    _CTX = Ctx(60.0)
    try:
        if 'shard' in doc:
            try:
                for b in doc.get('before', []):
                    session.reset()
                    try:
                        mod.run_shard(b, _CTX, doc.get('tier', 'quick'))        # earlier shards of the same worker: only their side effects matter
                    except HangError:
                        raise
                    except Exception:
                        pass
                    _CTX.viol = {}
                session.reset()
                mod.run_shard(doc['shard'], _CTX, doc.get('tier', 'quick'))
            except HangError:
                _CTX.violation('hang', _CTX.current, 'no progress')
            found = [(c, dict(count=v[0], case=v[1], detail=v[2])) for c, v in _CTX.viol.items()]
        else:
            found = mod.check_case(doc['case'])
    except HangError:
        found = [('hang', 'no progress')]
    _CTX = None
    classes = [c for c, _ in found]
    if as_json:
        print('REPLAY-JSON ' + json.dumps(classes))
        return 0
    for c, d in found:
        print('observed class=%s detail=%s' % (c, json.dumps(d, ensure_ascii=False, default=str)[:600]))
    if found:
        print('VIOLATION property=%s replay=%s' % (pid, path))
        return 1
    print('case holds: property=%s' % pid)
    return 0


def run_check(pid, tier):
    t0 = time.time()
    seed = int(os.environ.get('VERIF_SEED', '0') or 0)
    procs = int(os.environ.get('VERIF_PROCS', '0') or 0) or min(16, os.cpu_count() or 1)
    mod = load_module(pid)
    info = mod.describe(tier)
    limit = float(info.get('case_time_limit', 5.0 if tier == 'quick' else 20.0))
    findings = known_findings(pid)
    open_classes = {e['class']: e for e in findings if e['status'] == 'open'}
    lines = []
    merged_viol = {}
    viol_shards = collections.defaultdict(list)
    viol_history = {}
    harness_errors = []

    def add_viol(cls, count, case, detail, alts=()):
        ent = merged_viol.get(cls)
        size = len(json.dumps(case, ensure_ascii=False, default=str))
        if ent is None:
            ent = merged_viol[cls] = [count, case, detail, size, []]
        else:
            ent[0] += count
            if size < ent[3]:
                keep_alternative(ent[4], (ent[3], ent[1], ent[2]), 8)
                ent[1], ent[2], ent[3] = case, detail, size
            else:
                keep_alternative(ent[4], (size, case, detail), 8)
        for a in alts:
            keep_alternative(ent[4], tuple(a), 8)

    # 1. stored witnesses of known findings (open: still failing? fixed: must hold now)
    witness_report = []
    global _CTX
    _worker_init()
    for e in findings:
        if 'witness' not in e:
            continue
        _CTX = Ctx(60.0)
        try:
            found = mod.check_case(e['witness'])
        except HangError:
            found = [('hang', 'no progress')]
        finally:
            _CTX = None
        classes = [c for c, _ in found]
        if e['status'] == 'open':
            if e['class'] in classes:
                witness_report.append((e, 'still-fails'))
            else:
                witness_report.append((e, 'gone'))
            for c, d in found:
                if c != e['class'] and c not in open_classes:
                    add_viol(c, 1, e['witness'], d)
        else:
            for c, d in found:
                if c not in open_classes:
                    add_viol(c, 1, e['witness'], d)
            witness_report.append((e, 'fails-again' if found else 'holds'))
    signal.setitimer(signal.ITIMER_REAL, 0, 0)

    # 2. the sweep
    shards = list(mod.shards(tier))
    random.Random(seed).shuffle(shards)
    tot = collections.Counter()
    skipped = collections.Counter()
    extra = collections.Counter()
    outcomes = set()
    stateset = set()
    samples = []
    ctxmp = mp.get_context('fork')
    with ProcessPoolExecutor(max_workers=procs, mp_context=ctxmp, initializer=_worker_init) as ex:
        futs = [ex.submit(_run_shard, (mod.__name__, s, tier, limit)) for s in shards]
        stop_early = bool(os.environ.get('VERIF_STOP_ON_FIRST'))      # evaluation aid only (tools/reeval_all.py): the run is then not exhaustive
        for fu in as_completed(futs):
            if fu.cancelled():
                continue
            shard, res, err = fu.result()
            if stop_early and res['viol'] and not all(c in open_classes for c in res['viol']):
                for f2 in futs:
                    f2.cancel()
                extra['stopped_after_first_violation'] += 1
            if err:
                harness_errors.append((shard, err))
            for k in ('states', 'transitions', 'evals', 'validated', 'nontrivial'):
                tot[k] += res[k]
            skipped.update(res['skipped'])
            extra.update(res['extra'])
            if len(outcomes) < OUTCOME_CAP:
                outcomes |= res['outcomes']
            stateset |= res['stateset']
            for s in res['samples']:
                if len(samples) < 12:
                    samples.append(s)
            for cls, (count, case, detail, _size, alts) in res['viol'].items():
                add_viol(cls, count, case, detail, alts)
                if len(viol_shards[cls]) < 3:
                    viol_shards[cls].append(shard)
                    viol_history[json.dumps(shard, sort_keys=True, default=str)] = res.get('worker_history', [])

    tot['states'] += len(stateset)

    # 3. classify
    new = []
    known_seen = {}
    for cls, (count, case, detail, _size, alts) in sorted(merged_viol.items(), key=lambda kv: kv[1][3]):
        if cls in open_classes:
            known_seen[cls] = (count, case)
        else:
            new.append((cls, count, case, detail, sorted(alts, key=lambda a: a[0])))
    exit_code = 0
    for e, status in witness_report:
        if e['status'] == 'open':
            n, wcase = known_seen.get(e['class'], (0, None))
            if status == 'still-fails' or n:
                lines.append('KNOWN-FINDING: property=%s %s class=%s witness=%s count_in_sweep=%d' % (
                    pid, e['what'], e['class'], json.dumps(e.get('witness'), ensure_ascii=False), n))
            else:
                lines.append('KNOWN-FINDING-GONE: property=%s class=%s (witness holds now and the sweep did not hit it)'
                             % (pid, e['class']))
    for cls, e in open_classes.items():
        if 'witness' not in e and cls in known_seen:
            lines.append('KNOWN-FINDING: property=%s %s class=%s count_in_sweep=%d' % (pid, e['what'], cls, known_seen[cls][0]))
    replays = []
    nonrepro = []
    for cls, count, case, detail, alts in new[:25]:
        path = write_replay(pid, cls, case, detail, count, tier, mod)
        try:
            # a case that hung is not run a second time (it would only hang again): the watchdog's verdict stands
            again = None if (cls == 'hang' or cls.startswith('library-exception:')) else replay_in_fresh_process(path)
            # the minimal witness may be one that fails only after other cases ran in the same process (history dependence);
            # try the other small witnesses of the class before giving up
            for _size, c2, d2 in alts:
                if again is None or cls in again:
                    break
                os.remove(path)
                case, detail = c2, d2
                path = write_replay(pid, cls, case, detail, count, tier, mod)
                again = replay_in_fresh_process(path)
        except Exception as ex_:
            again = None
            harness_errors.append(('replay', str(ex_)))
        history_note = ''
        if again is not None and cls not in again:
            # no single case reproduces it: the violation needs the calls made earlier in the same sweep.  A shard is a
            # deterministic call sequence, so it is replayed from its start in a fresh interpreter
            found_shard = None
            for sh in viol_shards.get(cls, []):
                spath = write_shard_replay(pid, cls, sh, case, detail, count, tier)
                try:
                    if cls in replay_in_fresh_process(spath):
                        found_shard = spath
                        break
                except Exception as ex_:
                    harness_errors.append(('shard-replay', str(ex_)))
                os.remove(spath)
            if found_shard is None:
                # module-level state may also survive from one shard to the next inside a worker process: replay the whole
                # sequence of shards that worker had run before the violating one
                for sh in viol_shards.get(cls, []):
                    before = viol_history.get(json.dumps(sh, sort_keys=True, default=str)) or []
                    if not before:
                        continue
                    spath = write_shard_replay(pid, cls, sh, case, detail, count, tier, before)
                    try:
                        if cls in replay_in_fresh_process(spath):
                            found_shard = spath
                            break
                    except Exception as ex_:
                        harness_errors.append(('worker-history-replay', str(ex_)))
                    os.remove(spath)
            if found_shard is None:
                nonrepro.append((cls, path, again))
                continue
            os.remove(path)
            path = found_shard
            history_note = ' history-dependent=yes (holds when the case is the first call of a process; replay re-runs its shard from the start)'
        replays.append(path)
        lines.append('VIOLATION property=%s replay=%s class=%s count=%d case=%s%s' % (
            pid, os.path.relpath(path, ROOT), cls, count, json.dumps(case, ensure_ascii=False, default=str)[:300], history_note))
        exit_code = 1
    if len(new) > 25:
        lines.append('note: %d further violation classes not written out' % (len(new) - 25))
    for cls, path, again in nonrepro:
        lines.append('HARNESS-NONDETERMINISM property=%s class=%s replay=%s observed-in-fresh-process=%s (seen only after other cases had '
                     'run in the same process: the library behaves history-dependently, cf. C08)' % (pid, cls, path, again))
        if exit_code == 0:
            exit_code = 2
    for shard, err in harness_errors[:5]:
        lines.append('HARNESS-ERROR property=%s shard=%s\n%s' % (pid, json.dumps(shard, default=str)[:200], err))
        if exit_code == 0:
            exit_code = 2

    # 4. evidence
    head, dirty = git_state(REPO)
    wall = time.time() - t0
    cov = dict(
        states=tot['states'], transitions=tot['transitions'], traces_validated_against_impl=tot['validated'],
        evaluations=tot['evals'], distinct_nontrivial=tot['nontrivial'],
        rule=info['rule'] + ' Non-trivial: ' + info.get('nontrivial', 'every case'),
        samples=samples, exhaustive=bool(info.get('exhaustive', True)) and not extra.get('stopped_after_first_violation') and not extra.get('shards_aborted_by_hang') and not extra.get('shards_aborted_by_library_exception')
        and not extra.get('shards_skipped_after_repeated_hangs'),
        bounds=info.get('bounds'), shards=len(shards), workers=procs,
        skipped_unspecified=dict(skipped), distinct_outcomes=len(outcomes),
        distinct_outcomes_capped=len(outcomes) >= OUTCOME_CAP, counters=dict(extra),
        explanation=info.get('explanation', ''),
        violation_classes={c: v[0] for c, v in merged_viol.items()},
        known_findings=[dict(cls=e['class'], status=e['status'], witness_status=s) for e, s in witness_report],
        replays=[os.path.relpath(p, ROOT) for p in replays],
        repo=dict(path=REPO, head=head, dirty=dirty), python=sys.version.split()[0],
        harness_errors=len(harness_errors),
    )
    ev = dict(property_id=pid, tier=tier, seed=seed, level='model_checking', coverage=cov,
              assumptions=info.get('assumptions', []), wall_s=round(wall, 2), violations=len(new))
    os.makedirs(EVIDENCE_DIR, exist_ok=True)
    with open(os.path.join(EVIDENCE_DIR, pid + '.json'), 'w') as f:
        json.dump(ev, f, indent=1, ensure_ascii=False, default=str)
    print('%s %s: states=%d transitions=%d executions=%d validated=%d nontrivial=%d outcomes=%d skipped=%s wall=%.1fs' % (
        pid, tier, tot['states'], tot['transitions'], tot['evals'], tot['validated'], tot['nontrivial'], len(outcomes),
        dict(skipped), wall))
    if extra:
        print('counters: %s' % dict(extra))
    for l in lines:
        print(l)
    if exit_code == 0:
        print('OK property=%s held on everything explored%s' % (pid, ' (apart from the listed known findings)' if any(
            l.startswith('KNOWN-FINDING:') for l in lines) else ''))
    return exit_code


def cmd_selftest(argv):
    from mc import selftest
    return selftest.main(argv)


def main(argv):
    if not argv:
        print(__doc__)
        return 2
    if argv[0] == '--replay':
        return cmd_replay(argv[1:])
    if argv[0] == '--selftest':
        return cmd_selftest(argv[1:])
    pid = argv[0].upper()
    tier = argv[1] if len(argv) > 1 else os.environ.get('VERIF_TIER', 'quick')
    if tier not in ('quick', 'thorough'):
        print('tier must be quick or thorough')
        return 2
    return run_check(pid, tier)


if __name__ == '__main__':
    sys.exit(main(sys.argv[1:]))
