"""Generator of stylesheets (CSS/SCSS/LESS with nested rules) with recorded ground truth (never imports emmet).

shape := list of nodes; node := ('R', children) | ('D',) | ('C',)      (rule, declaration, comment)
Texts are assigned from the menus in rotation (offset = rotation index) so that every menu entry meets every shape.

emit(shape, rotation, layout) -> (text, nodes): nodes in document order, each
  dict(kind='rule'|'decl', start, end, parent, children=[indices],
       rule: sel=(s,e), body=(after '{', position of '}'), content=(s,e)|None (body trimmed)
       decl: name=(s,e), value=(s,e), semicolon=position of ';' or None, tokens=[(s,e)...] value tokens where recorded)
"""

SELECTORS = ['a', 'a:hover', 'a::before', '@media (min-width: 1px)', 'a[t="}"]', '.b > c', '&:hover', 'b:first-child a:hover',
             'a:not(:hover)::after', 'a[t="\\"}{"]', 'a /* { ; } */ b', '::selection', ':root',
             ':-moz-x', 'a[t=\'5" {\']']           # a vendor-prefixed pseudo-class first; a string holding one quote of the other kind
DECLS = [('b', 'c'), ('b', 'c d'), ('$v', '1px'), ('--x', 'y'), ('b', '"x;y{}"'), ('b', 'url(a)'), ('b', 'c /* ; */ d'),
         ('b', '"\\";}:"'), ('b', "'\\'};' d"), ('b', 'url(http://x/y:z)'),
         ('$m', '(a: 1, b: (c: 2), d: 3)'), ('b', 'c /** ; **/ d'), ('b', '"it\'s; }"')]
DECLS_PAREN = [('b', 'url(a;b)'), ('b', 'f({)')]
COMMENT = '/* } ; : { */'
# comments in rotation: terminators preceded by further asterisks, empty comments
COMMENTS = [COMMENT, '/** } **/', '/***/', '/* a*b ; **/', '/**/', '/* {* / */']
LAYOUTS = ('compact', 'spaced', 'space-before-semicolon', 'comment-before-semicolon', 'glued-comment-before-semicolon')
# extended declaration menu for the action helpers (C17): value tokens recorded
DECLS_TOKENS = [
    ('b', '1px solid red', [(0, 3), (4, 9), (10, 13)]),
    ('b', 'a, b', [(0, 1), (3, 4)]),
    ('b', 'url(a b) c', [(0, 8), (9, 10)]),
    ('b', 'c', [(0, 1)]),
    ('$v', '1px', [(0, 3)]),
    ('b', '"x;y" d', [(0, 5), (6, 7)]),
    ('b', 'f(g(a) b) c', [(0, 9), (10, 11)]),
    ('b', 'f(g(1, 2) + 3) d', [(0, 14), (15, 16)]),
    ('b', '"s \\"h; t\\"" d', [(0, 12), (13, 14)]),          # escaped quotes of the string's own kind, a `;` between them
]
# with a value-less statement in the rotation (`@include x;`): only the select_item_* expectations are defined for it
DECLS_WITH_STATEMENT = [DECLS_TOKENS[0], ('@include x', None, []), DECLS_TOKENS[3], DECLS_TOKENS[1], ('@extend .y', None, [])]


def shapes(n, depth):
    "all forests with exactly n nodes and rule nesting <= depth"
    if n == 0:
        yield []
        return
    for k in range(1, n + 1):
        for first in trees(k, depth):
            for rest in shapes(n - k, depth):
                yield [first] + rest


def trees(k, depth):
    if k == 1:
        yield ('D',)
        yield ('C',)
    if depth > 0:
        for ch in shapes(k - 1, depth - 1):
            yield ('R', ch)


def count_shapes(n):
    F = [1]
    T = [0]
    for m in range(1, n + 1):
        T.append(3 if m == 1 else F[m - 1])
        F.append(sum(T[k] * F[m - k] for k in range(1, m + 1)))
    return F[n]


def emit(shape, rotation=0, layout='compact', decls=None, last_without_semicolon=False):
    decls = decls or DECLS
    out = []
    pos = [0]
    nodes = []
    counters = {'sel': rotation, 'decl': rotation, 'comment': rotation}
    spaced = layout == 'spaced'

    def w(s):
        out.append(s)
        pos[0] += len(s)

    def indent(level):
        if spaced:
            w('  ' * level)

    def node(nd, parent, level, is_last_in_body):
        if nd[0] == 'C':
            indent(level)
            w(COMMENTS[counters['comment'] % len(COMMENTS)])
            counters['comment'] += 1
            if spaced:
                w('\n')
            return
        idx = len(nodes)
        rec = dict(parent=parent, children=[])
        nodes.append(rec)
        if parent is not None:
            nodes[parent]['children'].append(idx)
        if nd[0] == 'D':
            d = decls[counters['decl'] % len(decls)]
            counters['decl'] += 1
            name, value = d[0], d[1]
            indent(level)
            rec['kind'] = 'decl'
            s = pos[0]
            w(name)
            rec['name'] = (s, pos[0])
            if value is None:
                # statement without a value: name only, terminated by `;`
                rec['kind'] = 'stmt'
                rec['value'] = None
                rec['semicolon'] = pos[0]
                w(';')
                rec['start'], rec['end'] = s, pos[0]
                if spaced:
                    w('\n')
                return
            w(': ' if spaced else ':')
            vs = pos[0]
            w(value)
            rec['value'] = (vs, pos[0])
            if len(d) > 2:
                rec['tokens'] = [(vs + a, vs + b) for a, b in d[2]]
            if last_without_semicolon and is_last_in_body and parent is not None:
                rec['semicolon'] = None
                rec['start'], rec['end'] = s, pos[0]
            else:
                if layout == 'space-before-semicolon':
                    w(' ')
                elif layout == 'comment-before-semicolon':
                    w(' /* } */ ')
                elif layout == 'glued-comment-before-semicolon':
                    w('/* was 1px; } */')          # no blank between the value and the comment
                rec['semicolon'] = pos[0]
                w(';')
                rec['start'], rec['end'] = s, pos[0]
            if spaced:
                w('\n')
            return
        sel = SELECTORS[counters['sel'] % len(SELECTORS)]
        counters['sel'] += 1
        indent(level)
        rec['kind'] = 'rule'
        s = pos[0]
        w(sel)
        rec['sel'] = (s, pos[0])
        if spaced:
            w(' ')
        rec['brace'] = pos[0]
        w('{')
        body_start = pos[0]
        if spaced:
            w('\n')
        ch = nd[1]
        for i, c in enumerate(ch):
            node(c, idx, level + 1, i == len(ch) - 1 and c[0] == 'D')
        indent(level)
        body_end = pos[0]
        w('}')
        rec['body'] = (body_start, body_end)
        rec['start'], rec['end'] = s, pos[0]
        if spaced:
            w('\n')

    for i, nd in enumerate(shape):
        node(nd, None, 0, False)
    text = ''.join(out)
    for rec in nodes:
        if rec['kind'] == 'rule':
            a, b = rec['body']
            while a < b and text[a] in ' \t\r\n':
                a += 1
            while b > a and text[b - 1] in ' \t\r\n':
                b -= 1
            rec['content'] = (a, b) if a != b else None
    return text, nodes


def enclosing(nodes, p):
    "indices of all nodes with start < p < end, innermost first"
    res = [i for i, n in enumerate(nodes) if n['start'] < p < n['end']]
    res.sort(key=lambda i: nodes[i]['end'] - nodes[i]['start'])
    return res


def on_boundary(nodes, p):
    return any(p == n['start'] or p == n['end'] for n in nodes)


def push(ranges, r):
    if r is None or r[0] == r[1]:
        return
    if ranges and ranges[-1] == r:
        return
    ranges.append(r)


def outward(nodes, p):
    res = []
    for i in enclosing(nodes, p):
        n = nodes[i]
        if n['kind'] == 'decl':
            push(res, n['value'])
            push(res, (n['start'], n['end']))
        else:
            push(res, n['content'])
            push(res, (n['start'], n['end']))
    return res


def inward(nodes, p):
    enc = enclosing(nodes, p)
    res = []
    if not enc:
        return res
    i = enc[0]
    while True:
        n = nodes[i]
        push(res, (n['start'], n['end']))
        if n['kind'] == 'decl':
            push(res, n['value'])
            break
        push(res, n['content'])
        if not n['children']:
            break
        i = n['children'][0]
    return res
