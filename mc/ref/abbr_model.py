"""Reference model of the abbreviation operators (never imports emmet).

A *derivation* (skeleton) is a sequence  seq := [(item, op), ...]  with  op in (None, '+', '>', '^', '^^')  (None only
on the last item) and  item := ('E', rep) | ('G', seq, rep),  rep in (None, 2, 3).  From one derivation and a list of
element labels both the abbreviation text (render) and the tree the operators denote (denote/unroll) are produced.
"""

REP_VALUES = (2, 3)
OPS_AFTER_E = ('>', '+', '^', '^^')
OPS_AFTER_G = ('+', '^', '^^')       # '>' directly after ')' is left unspecified (DESIGN.md C01)


def gen_seqs(n, depth, reps):
    "yields (seq, repeaters_used): all sequences with exactly n elements, group nesting <= depth, <= reps repeaters"
    if n == 0:
        return
    for item, used, rused in gen_items(n, depth, reps):
        rest = n - used
        if rest == 0:
            yield [(item, None)], rused
        else:
            for op in (OPS_AFTER_E if item[0] == 'E' else OPS_AFTER_G):
                for tail, r2 in gen_seqs(rest, depth, reps - rused):
                    yield [(item, op)] + tail, rused + r2


def gen_items(n, depth, reps):
    yield ('E', None), 1, 0
    if reps > 0:
        for v in REP_VALUES:
            yield ('E', v), 1, 1
    if depth > 0:
        for k in range(1, n + 1):
            for inner, r in gen_seqs(k, depth - 1, reps):
                yield ('G', inner, None), k, r
                if reps - r > 0:
                    for v in REP_VALUES:
                        yield ('G', inner, v), k, r + 1


def count_elements(seq):
    return sum(1 if it[0] == 'E' else count_elements(it[1]) for it, _ in seq)


def render(seq, labels, counter=None):
    "abbreviation text; element i (document order) is written as labels[i]"
    if counter is None:
        counter = [0]
    s = []
    for item, op in seq:
        if item[0] == 'E':
            i = counter[0]
            counter[0] += 1
            s.append(labels[i])
            if item[1]:
                s.append('*%d' % item[1])
        else:
            s.append('(' + render(item[1], labels, counter) + ')')
            if item[2]:
                s.append('*%d' % item[2])
        if op:
            s.append(op)
    return ''.join(s)


class N:
    __slots__ = ('label', 'rep', 'ch', 'index')

    def __init__(self, label, rep, index=None):
        self.label = label      # None for a group
        self.rep = rep
        self.ch = []
        self.index = index      # index of the written element in document order of the abbreviation


def denote(seq, labels, parent_list=None, counter=None):
    """The tree the operators denote, before unrolling: explicit parent stack per (group) sequence.
    '>' descends into the element just written, '+' stays, each '^' pops once if the stack is non-empty;
    a group evaluates its inner sequence with a fresh stack and is one unit for '+' and '*N'."""
    if parent_list is None:
        parent_list = []
    if counter is None:
        counter = [0]
    cur = parent_list
    stack = []
    for item, op in seq:
        if item[0] == 'E':
            i = counter[0]
            counter[0] += 1
            node = N(labels[i], item[1], i)
        else:
            node = N(None, item[2])
            denote(item[1], labels, node.ch, counter)
        cur.append(node)
        if op == '>':
            stack.append(cur)
            cur = node.ch
        elif op and op[0] == '^':
            for _ in op:
                if stack:
                    cur = stack.pop()
    return parent_list


def unroll(nodes, counter=1):
    """-> nested list of (label, children, index): repeats an element with its subtree / a group's list N times in place.
    A `$` at the end of a label is replaced by the counter of the nearest repeated element or group containing it (itself included),
    1 when there is none."""
    out = []
    for nd in nodes:
        for i in range(nd.rep or 1):
            c = i + 1 if nd.rep else counter
            if nd.label is None:
                out += unroll(nd.ch, c)
            else:
                label = nd.label[:-1] + str(c) if nd.label.endswith('$') else nd.label
                out.append((label, unroll(nd.ch, c), nd.index))
    return out


# ------------------------------------------------------------------ implicit names (frozen from the property text)
IMPLICIT_PARENT = {
    'ul': 'li', 'ol': 'li', 'table': 'tr', 'tbody': 'tr', 'thead': 'tr', 'tfoot': 'tr', 'tr': 'td',
    'select': 'option', 'optgroup': 'option', 'p': 'span',
}


def implicit_name(parent_name, inline_elements):
    parent_name = parent_name.lower()          # HTML element names are case-insensitive
    if parent_name in IMPLICIT_PARENT:
        return IMPLICIT_PARENT[parent_name]
    if parent_name in inline_elements:
        return 'span'
    return 'div'


def split_label(label):
    "label -> (name or None, selfclose)   labels: 'x1', 'x1/', '.c1' (implicit), '.c1/'"
    sc = label.endswith('/')
    if sc:
        label = label[:-1]
    for ch in '{[':                      # text / attribute set written on the element
        if ch in label:
            label = label[:label.index(ch)]
    if label == '' or label.startswith('.') or label.startswith('#'):      # '' : only a [..] set was written
        return None, sc
    return label, sc


def events(tree, style, inline_elements=(), parent_name=''):
    """Expected ('o', name, selfclosed) / ('c', name) events for an unrolled tree.  A '/' leaf is written without a
    close tag: bare open tag under the html style, '<x/>' / '<x />' under xml / xhtml."""
    ev = []
    for label, ch, _ in tree:
        name, sc = split_label(label)
        if name is None:
            name = implicit_name(parent_name, inline_elements)
        if sc and not ch:
            ev.append(('o', name, style != 'html'))
        else:
            ev.append(('o', name, False))
            ev += events(ch, style, inline_elements, name)
            ev.append(('c', name))
    return ev


def tree_size(tree):
    return sum(1 + tree_size(ch) for _, ch, _ in tree)


def tree_depth(tree):
    return 1 + max((tree_depth(ch) for _, ch, _ in tree), default=-1) if tree else 0
