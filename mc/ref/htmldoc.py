"""Generator of well-formed HTML/XML documents with recorded ground truth (never imports emmet).

A forest is a list of nodes; node := (kind, children, attrs)
  kinds with children:  'div', 'span' (paired), 'tpl' (<script type="text/x-template">, not special: body is markup)
  leaf kinds:           'br' (void in HTML mode, written <br></br> in XML mode), 'x/' (self-closed), 'comment', 'cdata', 'pi',
                        'script', 'style' (special: body is never markup), 'text'
attrs: list of (name, raw_value or None) written into the open tag.

emit(forest, xml) -> (text, elements) where elements is the list of element records in document order:
  dict(name, start, end, open=(s,e), close=(s,e)|None, attrs=[(name, ns, ne, raw, vs, ve)], children=[indices], parent=index|None)
"""

PAIRED = ['div', 'x:\u00f6-\u00d6', 'tpl']      # a plain name; a name with colon, dash and letters at the upper end of a NameChar range (o-umlaut, O-umlaut); the non-special script template
LEAVES = ['br', 'x/', 'comment', 'cdata', 'pi', 'script', 'style', 'text', 'y /', 'script/']
LEAVES_SMALL = ['br', 'x/', 'comment', 'script', 'text', 'cdata']

ATTR_SETS = [
    [('a', '"b"')],
    [('a', "'>'")],
    [('a', 'b')],
    [('a', '{x>y}')],
    [('c', None)],
    [('a', '"b"'), ('c', None), ('d', 'e')],
    [('[ng]', '"x"')],
    [('*if', '"y"')],
    [('a', '"it\'s > 1"'), ('d', 'e')],
    [('a', '\'say "x>"\''), ('c', None)],
    [('{...p}', None), ('(click)', '"f(a>b)"')],
]
# extended menu for the action helpers (C17): class token lists, empty values, expressions
ATTR_SETS_ACTIONS = [
    [('class', '"x  y"')],
    [('class', 'x')],
    [('class', '""')],
    [('t', '{e}')],
    [('id', '"i"'), ('class', '"a b c"')],
    [('a', None), ('class', "'k'")],
    [('class', '"r\tc"')],                  # class tokens separated by a tab / by line breaks only
    [('class', '"\nx\n\ty\n"'), ('d', 'e')],
    [('class', 'item'), ('id', 'main')],     # unquoted values of more than two characters (a one-letter value hides every off-by-one)
    [('class', '{a bc}')],                   # an expression value that holds a token list
]

BODY = {
    'comment': '<!-- <b> -->',
    'cdata': '<![CDATA[ <b></i> ]]>',
    'pi': '<? "<b>" <i> ?>',
    'script': 'if (a<b) "</div>" <p>',
    'style': 'a>b{} <b>',
    'text': 't',
}


# (a processing instruction extends to the first `?>` outside quoted strings, as the scanner documents: PHP strings may hold `?>`)
# alternative bodies: terminators preceded by a copy of their own first character, empty bodies, bodies made of the very
# characters that open tags
BODY_VARIANTS = [
    BODY,
    {'comment': '<!-- <b> --->', 'cdata': '<![CDATA[ a[b[0]]]]>', 'pi': '<??>', 'script': '', 'style': '', 'text': ' > ',
     'script-attrs': [('type', "''")]},                     # an empty type still means script
    {'comment': '<!---->', 'cdata': '<![CDATA[]]>', 'pi': '<?php echo "?><b>in</b>" \'?>\'; ??>', 'script': '<', 'style': '</ <', 'text': 't',
     'script-attrs': [('type', '""'), ('defer', None)]},
    dict(BODY, **{'script': '<p> </div> <b>', 'script-attrs': [('type', '""')]}),      # an empty type, a body that looks like markup
]


def uses_kind(forest, kind):
    return any(k == kind or uses_kind(ch, kind) for k, ch, _ in forest)


def uses_body(forest):
    return any(kind in BODY or uses_body(ch) for kind, ch, _ in forest)


def count_forests(n, leaves, paired):
    "closed recurrence F(n) = sum_k T(k) F(n-k), T(1) = #leaves + #paired, T(k) = #paired * F(k-1)"
    F = [1]
    T = [0]
    for m in range(1, n + 1):
        T.append((leaves + paired) if m == 1 else paired * F[m - 1])
        F.append(sum(T[k] * F[m - k] for k in range(1, m + 1)))
    return F[n]


def forests(n, leaves=LEAVES, paired=PAIRED):
    "all forests with exactly n nodes (attrs empty)"
    if n == 0:
        yield []
        return
    for k in range(1, n + 1):
        for first in trees(k, leaves, paired):
            for rest in forests(n - k, leaves, paired):
                yield [first] + rest


def trees(k, leaves, paired):
    if k == 1:
        for l in leaves:
            yield (l, [], [])
    for p in paired:
        for ch in forests(k - 1, leaves, paired):
            yield (p, ch, [])


def element_paths(forest, prefix=()):
    "paths of nodes that are elements able to carry attributes"
    out = []
    for i, (kind, ch, attrs) in enumerate(forest):
        if kind in ('div', PAIRED[1], 'br', 'x/', 'y /'):
            out.append(prefix + (i,))
        if ch:
            out += element_paths(ch, prefix + (i,))
    return out


def with_attrs(forest, path, attrs):
    i = path[0]
    kind, ch, a = forest[i]
    if len(path) == 1:
        node = (kind, ch, list(attrs))
    else:
        node = (kind, with_attrs(ch, path[1:], attrs), a)
    return forest[:i] + [node] + forest[i + 1:]


def emit(forest, xml=False, body=None, tpl_plain=False):
    """tpl_plain: the template element is written as a bare <script> (no type): an element with markup children only for a
    caller who passes an empty `special` table"""
    BODY = body or globals()['BODY']
    out = []
    elements = []
    pos = [0]

    def w(s):
        out.append(s)
        pos[0] += len(s)

    def open_tag(name, attrs, selfclose=False, space=False):
        s = pos[0]
        w('<' + name)
        recs = []
        for an, raw in attrs:
            w(' ')
            ns = pos[0]
            w(an)
            ne = pos[0]
            if raw is None:
                recs.append((an, ns, ne, None, None, None))
            else:
                w('=')
                vs = pos[0]
                w(raw)
                recs.append((an, ns, ne, raw, vs, pos[0]))
        w((' />' if space else '/>') if selfclose else '>')
        return (s, pos[0]), recs

    def node(nd, parent):
        kind, ch, attrs = nd
        if kind in BODY and kind not in ('script', 'style'):
            w(BODY[kind])
            return
        idx = len(elements)
        rec = dict(kind=kind, parent=parent, children=[])
        elements.append(rec)
        if parent is not None:
            elements[parent]['children'].append(idx)
        if kind in ('x/', 'y /'):
            rec['name'] = kind[0]
            rec['open'], rec['attrs'] = open_tag(kind[0], attrs, True, kind == 'y /')
            rec['close'] = None
        elif kind == 'script/':
            # a self-closed special element has no body to skip
            rec['name'] = 'script'
            rec['open'], rec['attrs'] = open_tag('script', [('src', '"a.js"')] + list(attrs), True)
            rec['close'] = None
        elif kind == 'br':
            rec['name'] = 'br'
            rec['open'], rec['attrs'] = open_tag('br', attrs)
            if xml:
                s = pos[0]
                w('</br>')
                rec['close'] = (s, pos[0])
            else:
                rec['close'] = None
        elif kind in ('script', 'style'):
            rec['name'] = kind
            rec['open'], rec['attrs'] = open_tag(kind, list(BODY.get(kind + '-attrs', [])) + list(attrs))
            w(BODY[kind])
            s = pos[0]
            w('</%s>' % kind)
            rec['close'] = (s, pos[0])
        else:
            name = 'script' if kind == 'tpl' else kind
            a = ([('type', '"text/x-template"')] if kind == 'tpl' and not tpl_plain else []) + list(attrs)
            rec['name'] = name
            rec['open'], rec['attrs'] = open_tag(name, a)
            for c in ch:
                node(c, idx)
            s = pos[0]
            w('</%s>' % name)
            rec['close'] = (s, pos[0])
        rec['start'] = rec['open'][0]
        rec['end'] = (rec['close'] or rec['open'])[1]

    for nd in forest:
        node(nd, None)
    return ''.join(out), elements


def attribute_variant(text, elements):
    "the same document with other letters inside every attribute name and value: same length, same tags, same offsets"
    tr = str.maketrans('abcdefghijklmnopqrstuvwxyz', 'qrstuvwxyzabcdefghijklmnop')
    chars = list(text)
    for e in elements:
        for (_n, ns, ne, raw, vs, ve) in e['attrs']:
            for i in list(range(ns, ne)) + (list(range(vs, ve)) if raw is not None else []):
                chars[i] = chars[i].translate(tr)
    return ''.join(chars)


def enclosing(elements, p):
    "indices of all elements with start < p < end, innermost first"
    res = [i for i, e in enumerate(elements) if e['start'] < p < e['end']]
    res.sort(key=lambda i: elements[i]['end'] - elements[i]['start'])
    return res


def first_child_chain(elements, i):
    out = [i]
    while elements[i]['children']:
        i = elements[i]['children'][0]
        out.append(i)
    return out


def on_boundary(elements, p):
    return any(p == e['start'] or p == e['end'] for e in elements)
