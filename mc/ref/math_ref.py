"""Reference for math expressions: recursive-descent parser to an AST, then evaluation in exact rational arithmetic
(and, separately, in floats in AST order).  Never imports emmet.

    expr    := term (('+'|'-') term)*
    term    := unary (('*'|'/'|'\\') unary)*
    unary   := ('+'|'-') unary | primary
    primary := number | '(' expr ')'
    number  := d+ | d+.d+ | .d+            interior blanks free

parse(s) -> ('ok', ast) | ('malformed',) | ('unspecified', reason)
"""
from fractions import Fraction
from math import floor


class Malformed(Exception):
    pass


class Unspecified(Exception):
    pass


class P:
    def __init__(self, s):
        self.s = s
        self.i = 0

    def ws(self):
        while self.i < len(self.s) and self.s[self.i] == ' ':
            self.i += 1

    def peek(self):
        self.ws()
        return self.s[self.i] if self.i < len(self.s) else ''

    def expr(self):
        node = self.term()
        while self.peek() in ('+', '-') and self.peek():
            op = self.s[self.i]
            self.i += 1
            node = (op, node, self.term())
        return node

    def term(self):
        node = self.unary()
        ops = set()
        while self.peek() in ('*', '/', '\\') and self.peek():
            op = self.s[self.i]
            self.i += 1
            ops.add(op)
            node = (op, node, self.unary())
        if '\\' in ops and len(ops) > 1:
            raise Unspecified('chain mixing \\ with * or /')
        return node

    def unary(self):
        c = self.peek()
        if c == '+':
            self.i += 1
            return self.unary()
        if c == '-':
            self.i += 1
            return ('neg', self.unary())
        return self.primary()

    def primary(self):
        c = self.peek()
        if c == '(':
            self.i += 1
            node = self.expr()
            if self.peek() != ')':
                raise Malformed()
            self.i += 1
            return node
        j = self.i
        s = self.s
        while j < len(s) and s[j].isdecimal():          # decimal digits only: superscripts etc. are not numbers
            j += 1
        if j < len(s) and s[j] == '.':
            k = j + 1
            while k < len(s) and s[k].isdecimal():
                k += 1
            if k == j + 1:
                if j > self.i:
                    raise Unspecified('number with trailing dot')
                raise Malformed()
            j = k
        if j == self.i:
            raise Malformed()
        lit = s[self.i:j]
        self.i = j
        return ('num', lit)


def parse(s):
    if s != s.strip(' '):
        return ('unspecified', 'leading or trailing blank')
    p = P(s)
    try:
        ast = p.expr()
        if p.peek() != '':
            # a dot directly after a complete expression, e.g. "1.": trailing-dot number
            raise Malformed()
    except Malformed:
        # "1." style inputs anywhere are unspecified rather than malformed
        if has_trailing_dot_number(s):
            return ('unspecified', 'number with trailing dot')
        return ('malformed',)
    except Unspecified as e:
        return ('unspecified', str(e))
    except RecursionError:
        return ('unspecified', 'too deep')
    return ('ok', ast)


def has_trailing_dot_number(s):
    for i, c in enumerate(s):
        if c == '.' and i > 0 and s[i - 1].isdecimal() and not (i + 1 < len(s) and s[i + 1].isdecimal()):
            return True
    return False


def ev_exact(ast):
    k = ast[0]
    if k == 'num':
        return Fraction(ast[1])
    if k == 'neg':
        return -ev_exact(ast[1])
    a = ev_exact(ast[1])
    b = ev_exact(ast[2])
    if k == '+':
        return a + b
    if k == '-':
        return a - b
    if k == '*':
        return a * b
    if b == 0:
        raise ZeroDivisionError()
    if k == '/':
        return a / b
    return Fraction(floor(a / b))


def ev_float(ast):
    k = ast[0]
    if k == 'num':
        return float(ast[1])
    if k == 'neg':
        return -ev_float(ast[1])
    a = ev_float(ast[1])
    b = ev_float(ast[2])
    if k == '+':
        return a + b
    if k == '-':
        return a - b
    if k == '*':
        return a * b
    if k == '/':
        return a / b
    return floor(a / b)


def close(x, y):
    return abs(x - y) <= 1e-9 * max(1.0, abs(x), abs(y))


def expected(s):
    """-> ('value', float) | ('zerodiv',) | ('malformed',) | ('unspecified', reason) | ('dot', expectation-with-the-dot-dropped)
    A number with a trailing dot (`1.`) is not in the grammar; whether it is rejected or read as `1` is left open, but nothing
    else is acceptable: ('dot', e) means "parse error, or exactly outcome e"."""
    r = parse(s)
    if r == ('unspecified', 'number with trailing dot'):
        import re
        s2 = re.sub(r'(\d)\.(?!\d)', r'\1', s)
        e = expected(s2)
        return ('dot', e) if e[0] in ('value', 'zerodiv', 'malformed') else e
    if r[0] != 'ok':
        return r
    try:
        ex = ev_exact(r[1])
    except ZeroDivisionError:
        return ('zerodiv',)
    try:
        fl = ev_float(r[1])
    except ZeroDivisionError:
        return ('unspecified', 'float underflow to zero divisor')
    except OverflowError:
        return ('unspecified', 'float overflow')
    if not close(float(ex), fl):
        return ('unspecified', 'floating-point artefact around floor')
    return ('value', float(ex))
