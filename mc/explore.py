"""Generic explorers (DESIGN.md §1.1).

E1  typing tree            strings_shards / strings_of_shard     all w in alphabet^{<=L}
E3  edit neighbourhood     neighbourhood                         all strings at edit distance <= r from a seed
E5  explicit-state graph   bfs                                   breadth-first search with canonical-state dedup

E2 (derivation trees) and E4 (caret / option lattices) are property specific and live next to their
reference models (mc/ref/*); they follow the same conventions: deterministic order, disjoint shards, counted.
"""
import itertools, collections


# ---------------------------------------------------------------- E1
def strings_shards(alphabet, maxlen, prefix_len=2):
    """Shard descriptors for all strings over `alphabet` (a list of units) with 0..maxlen units.
    One shard for everything shorter than prefix_len, one per prefix of length prefix_len."""
    n = len(alphabet)
    pl = min(prefix_len, maxlen)
    shards = [{'short': True, 'maxlen': min(pl - 1, maxlen)}] if pl > 0 else []
    if maxlen >= pl:
        for p in itertools.product(range(n), repeat=pl):
            shards.append({'prefix': list(p), 'maxlen': maxlen})
    return shards


def strings_of_shard(alphabet, shard):
    """Yields (units_tuple) for the shard, prefix order (a string before its extensions: typing order)."""
    if shard.get('short'):
        for k in range(0, shard['maxlen'] + 1):
            for t in itertools.product(alphabet, repeat=k):
                yield t
        return
    pre = tuple(alphabet[i] for i in shard['prefix'])
    rest = shard['maxlen'] - len(pre)
    for k in range(0, rest + 1):
        for t in itertools.product(alphabet, repeat=k):
            yield pre + t


def count_strings(n, maxlen):
    return sum(n ** k for k in range(maxlen + 1))


# ---------------------------------------------------------------- E3
def edits1(s, alphabet):
    "all strings at edit distance exactly <= 1 (insert / delete / substitute one character), deduplicated, s excluded"
    out = set()
    for i in range(len(s) + 1):
        for a in alphabet:
            out.add(s[:i] + a + s[i:])
    for i in range(len(s)):
        out.add(s[:i] + s[i + 1:])
        for a in alphabet:
            out.add(s[:i] + a + s[i + 1:])
    out.discard(s)
    return sorted(out)


def neighbourhood(s, alphabet, radius):
    "all strings within edit distance `radius` of s (s included), sorted: the deviation bound for inputs"
    seen = {s}
    frontier = [s]
    for _ in range(radius):
        nxt = []
        for w in frontier:
            for v in edits1(w, alphabet):
                if v not in seen:
                    seen.add(v)
                    nxt.append(v)
        frontier = nxt
    return sorted(seen, key=lambda w: (len(w), w))


# ---------------------------------------------------------------- E5
def bfs(init_hist, ops, build, canon, on_state, max_depth=None):
    """Explicit-state breadth-first search over operation histories.
    build(hist) -> fresh real state reached by replaying hist; canon(state) -> hashable canonical form;
    on_state(hist, state, is_new) is called for every transition target.  Returns (seen, transitions, depth, complete)."""
    s0 = build(init_hist)
    seen = {canon(s0): list(init_hist)}
    frontier = collections.deque([list(init_hist)])
    transitions = 0
    depth = 0
    complete = True
    while frontier:
        hist = frontier.popleft()
        depth = max(depth, len(hist))
        if max_depth is not None and len(hist) >= max_depth:
            complete = False
            continue
        for op in ops:
            h = hist + [op]
            st = build(h)
            transitions += 1
            k = canon(st)
            new = k not in seen
            on_state(h, st, new)
            if new:
                seen[k] = h
                frontier.append(h)
    return seen, transitions, depth, complete


# ---------------------------------------------------------------- option lattices (E4)
def deviations(space, k):
    """space: dict option -> list of values, first value = default.  Yields dicts of at most k non-default settings
    (0 deviations first, then 1, then 2 ...)."""
    keys = list(space)
    for r in range(0, k + 1):
        for combo in itertools.combinations(keys, r):
            alts = [space[c][1:] for c in combo]
            for vals in itertools.product(*alts):
                yield dict(zip(combo, vals))
