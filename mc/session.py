"""The `cache` dict of the simulated editor session.

An editor plugin keeps one `cache` dict and passes it with every call.  The markup checks do the same: all expand() calls of one
shard share CACHE, so anything a call leaves in it (a memo keyed on too little, say) meets the later calls of the shard, which run
under other options and on other abbreviations.  The runner empties it before every shard, so a shard is still a deterministic
call sequence: a violation that needs the earlier calls does not reproduce from its single case and is found again by the shard
replay (DESIGN.md section 2.5).  On a correct library the cache is neutral for markup (C08), so sharing it cannot raise an alarm.
"""
CACHE = {}


def reset():
    CACHE.clear()
