"""Alphabets (DESIGN.md §1.2): one representative per character class the code distinguishes, two where identity
matters; ordered simplest-first so that the first counterexample is the shortest."""

NBSP = ' '

# markup abbreviation characters: is_alpha lower/upper (upper matters for JSX), is_number, every Chars.* constant of
# abbreviation/tokenizer/utils.py, whitespace, and two characters outside every class
SIGMA_M = ['a', 'A', '1', '$', '#', '.', '*', '@', '-', '!', ':', '/', '>', '+', '^', '(', ')', '[', ']', '{', '}',
           '=', '"', "'", '\\', ' ', '%', ',']
# the structural symbols only (deeper sweeps)
SIGMA_M_STRUCT = ['a', '1', '$', '#', '.', '*', '>', '+', '^', '(', ')', '[', ']', '{', '}', '=', '"', '/']

# token-level markup units that cannot be spelled within the character bound
UNITS_M = ['a', 'ul', 'lorem', 'lorem5-', 'lorem-', 'label', 'input', '$#', '${1}', '${1:x}', '${a}', '*3', '*', '$$@-3', '$@^',
           '{t}', '{l1\nl2 ${1:x}}', '[a=b]', '[a="b c"]', '["q"]', '[', ']', '{', '}', '.c', '#i', '.', '/', '>', '+', '^', '(', ')', ' ', '"', '-',
           '!', ':', '\\', NBSP, 'é', '٣', 'A', '0', '.-e', '._m', '..', '{${1}}', '[class=""]',        # 0: counts and word numbers of zero; BEM shorthands
           '["*"]', '{*}']      # the repeater character where it is literal (after stray closers the context counters decide)

# stylesheet abbreviation characters: t = transparent, f/a = hex letters, 0 vs 1 because 0 is unit-less
SIGMA_S = ['a', 't', 'f', '1', '0', '$', '#', '.', '-', '!', ':', '/', '+', '(', ')', '{', '}', '"', "'", ' ', '%',
           ',', '@', '_']
UNITS_S = ['m', 'p', 'c', 'bd', 'lg', 'trf', '@kf', 'anim', 'animic', 'cnt', '10', '.5', '-5', '1.', '0', 'px', '#', '#f', '#fc0',
           '#t', '-', '--', '--x', '!', ':', '+', ',', '(', ')', '"', '"a"', "'", '${1}', '${1:x}', '${a}', '$v', '@v',
           ' ', '%', '/', 's', 'auto', '٣']

# CSS source / HTML source (matchers)
SIGMA_C = ['a', '{', '}', ':', ';', '"', "'", '\\', '(', ')', '/', '*', ' ', '\n', '@', '-', ',']
SIGMA_H = ['<', '>', '/', 'a', 'b', ' ', '=', '"', "'", '!', '-', '[', ']', '?', '{', '}', '\\', '*']      # `*`: attribute-name prefix (*ngIf, #ref)
UNITS_H = ['<a', '</a>', '<a>', '<br>', '/>', '>', '<', ' b="', " c='", ' d={', '"', "'", '}', ' e', '=', 'x',
           '<script>', '</script>', '<style>', '<!--', '-->', '<![CDATA[', ']]>', '<?', '?>', ' ', '/',
           '<script type=', ' *', ' #r', '{',            # the attribute the scanner itself reads (special elements are typed)
           '<A>', '</A>']                                # the same tag name in the other letter case (names are compared as written)

# math
TOKENS_E = ['1', '2', '0', '.5', '1.5', '+', '-', '*', '/', '\\', '(', ')', ' ', '()', '(1)', '(2+1)', '(-1)', '(-2+1)']      # groups that open with a sign
# '\u00b2' (superscript two): str.isdigit() but not a decimal digit - not part of a number
SIGMA_E = ['1', '.', '+', '-', '*', '/', '\\', '(', ')', ' ', 'a', '\u00b2']
SIGMA_EX = ['1', '.', '+', '-', '(', ')', ' ', 'a', '\u00b2']

# extract
SIGMA_X = ['a', '1', '$', '#', '.', '*', '-', '!', ':', '/', '>', '+', '^', '(', ')', '[', ']', '{', '}', '=', '"', "'",
           '\\', ' ', '<', '&']

# valid seed abbreviations (E3 edit neighbourhoods), shortest first
SEEDS_M = sorted([
    'a', 'ul>li', 'a+b', 'a>b^c', '(a+b)*2', 'a*3', 'ul>li*', '.c', '#i', 'a.c#i', 'a[b=c]', 'a[b="c d"]', "a[b='c']",
    'a{t}', 'a{$}', 'a$*2', 'a$$@-*3', 'a$@3*2', 'a/', 'a[b]', 'a[b.]', 'a[!b]', 'a[b={c}]', 'ul>.c', 'a>{t}', '{t}',
    'a[b=${1}]', 'a{${1:x}}', 'a[t=$#]*', 'lorem3', 'p>lorem', 'ul>li.i$*2>a', 'a>(b>c)+d', 'a>b>c^^d', '(a)', '((a))',
    'a{b{c}d}', 'a{\\}}', 'a[b=c d=e]', 'x:y', 'A.B', 'a.b/c', 'label>input', '!', 'a:b', 'a-b', 'a_b', 'a1', 'h1+h2',
    'a[${1}]', 'a*2>b*2', '(a+b)*2>c', 'a+(b)', 'a>b+c', 'img', 'br/', 'a[b="c"]{d}', 'a..b', 'a.-b', 'a._b',
], key=lambda s: (len(s), s))

SEEDS_S = sorted([
    'p', 'p10', 'm10-20', 'm-10--20', 'c#f', 'c#fc0', 'c#fc0.5', 'c#t', 'p10!', 'p!', 'p.5', 'p1.', 'p10p', 'p10e', 'p0',
    'p10+m20', 'bd1-s-#f', 'd:n', 'pos:a', 'trf:s(2)', 'trf:s(1,2)', 'lg(to right, #0, #f.8)', '@kf', '@m', '--x',
    'p${1}', 'p${1:x}', 'p$v', 'p@v', 'bg:u("a")', "c'a'", 'fz1.5', 'lh1', 'z1', 'op.5', 'm-a', 'p10-20-30-40',
    'bgc#e7bc0b', 'c#0b', 'w100p', 'mten', 'foo-bar',
], key=lambda s: (len(s), s))
