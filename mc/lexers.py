"""Independent lexers for the library's *output* (DESIGN.md §2.3).  They never import emmet.

lex_html(out)   -> events ('o', name, ((attr, quote, raw), ...), selfclosed) | ('c', name) | ('t', text) | ('comment', text)
                   quote is '"', "'", '{' (expression), '' (unquoted) or None (no value at all)
"""

WS = ' \t\r\n'


def lex_html(s, spans=None):
    """`spans`: optional list that receives (start, end) of every event, parallel to the returned events"""
    ev = []
    i = 0
    n = len(s)
    while i < n:
        if spans is not None and len(spans) < len(ev):
            spans.append((_start, i))
        _start = i
        if s.startswith('<!--', i):
            j = s.find('-->', i)
            j = n if j < 0 else j + 3
            ev.append(('comment', s[i:j]))
            i = j
            continue
        if s[i] == '<' and i + 1 < n and (s[i + 1].isalpha() or s[i + 1] in '/_:'):
            j = i + 1
            close = False
            if s[j] == '/':
                close = True
                j += 1
            k = j
            while k < n and (s[k].isalnum() or s[k] in '-_:.'):
                k += 1
            name = s[j:k]
            attrs = []
            selfc = False
            while k < n:
                while k < n and s[k] in WS:
                    k += 1
                if k < n and s[k] == '>':
                    k += 1
                    break
                if s.startswith('/>', k):
                    selfc = True
                    k += 2
                    break
                a = k
                while k < n and s[k] not in ' \t\r\n=>/':
                    k += 1
                if k == a:
                    k += 1
                    continue
                an = s[a:k]
                if k < n and s[k] == '=':
                    k += 1
                    if k < n and s[k] in '"\'':
                        q = s[k]
                        e = s.find(q, k + 1)
                        e = n if e < 0 else e
                        attrs.append((an, q, s[k + 1:e]))
                        k = e + 1
                    elif k < n and s[k] == '{':
                        d = 0
                        e = k
                        while e < n:
                            if s[e] == '{':
                                d += 1
                            elif s[e] == '}':
                                d -= 1
                                if d == 0:
                                    break
                            e += 1
                        attrs.append((an, '{', s[k + 1:e]))
                        k = e + 1
                    else:
                        e = k
                        while e < n and s[e] not in ' \t\r\n>':
                            e += 1
                        attrs.append((an, '', s[k:e]))
                        k = e
                else:
                    attrs.append((an, None, None))
            ev.append(('c', name) if close else ('o', name, tuple(attrs), selfc))
            i = k
            continue
        j = i + 1
        while j < n and not (s[j] == '<' and j + 1 < n and (s[j + 1].isalpha() or s[j + 1] in '/!_:')):
            j += 1
        ev.append(('t', s[i:j]))
        i = j
    if spans is not None and len(spans) < len(ev):
        spans.append((_start, i))
    return ev


def structure(events, keep_text=False):
    """Projects lexer events onto ('o', name, selfclosed) / ('c', name) [/ ('t', text-without-whitespace)]."""
    out = []
    for e in events:
        if e[0] == 'o':
            out.append(('o', e[1], e[3]))
        elif e[0] == 'c':
            out.append(('c', e[1]))
        elif e[0] == 't' and keep_text:
            t = ''.join(e[1].split())
            if t:
                out.append(('t', t))
    return out


def tree_of(events):
    """Builds a nested tree [(name, attrs, [children], text)] from events; raises ValueError on mismatched tags.
    `void` elements (open without close) must be marked selfclosed by the caller beforehand."""
    root = []
    stack = [root]
    names = []
    for e in events:
        if e[0] == 'o':
            node = [e[1], e[2], [], '']
            stack[-1].append(node)
            if not e[3]:
                stack.append(node[2])
                names.append(e[1])
        elif e[0] == 'c':
            if not names or names[-1] != e[1]:
                raise ValueError('mismatched close tag %s' % e[1])
            names.pop()
            stack.pop()
    if names:
        raise ValueError('unclosed %s' % names)
    return root
