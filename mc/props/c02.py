"""C02  Repeaters make exactly N copies and number them as documented.

E2 over numbering templates: all forests of <= U repeatable units (elements and groups, nested) with every assignment
of repeat counts, a `$`-site in element name, class, attribute value (unquoted and quoted), id and text; one site at a
time carries each of the 18 numbering forms; every maxRepeat limit.  Oracle: reference unroller with one global
completed-copies counter and a counter stack (never imports emmet), compared through the independent lexer.
"""
import itertools
from emmet import expand
from mc import session
from mc.lexers import lex_html

ID = 'C02'

FORMS = [w + m for w in ('$', '$$', '$$$') for m in ('', '@0', '@3', '@10', '@-', '@-3', '@98', '@-999')]   # 98.., 999..: wider than the run
PLAIN = ('$', '$$', '$$$')
SITES = ('name', 'class', 'attr', 'qattr', 'id', 'text', 'aname', 'eattr')
TAGS = 'xyzw'

BOUNDS = {
    'quick': dict(units=2, counts=[1, 2, 3, 10], units3=True, counts3=[1, 3], max_product=100, limits=[None, 1, 2, 3, 5, 20]),
    'thorough': dict(units=3, counts=[1, 2, 3, 10, 12], units3=False, counts3=None, max_product=150,
                     limits=[None, 1, 2, 3, 4, 5, 7, 20]),
}


def describe(tier):
    b = BOUNDS[tier]
    return dict(
        rule='E2: all forests of <= %d repeatable units (element | group, arbitrarily nested%s) x repeat count per unit in '
             '{none} + %s (product of counts <= %d) x [one site of (%s; aname = the name of a bracket attribute) carrying one of the %d numbering forms ($,$$,$$$ x '
             '-,@0,@3,@10,@-,@-3,@98,@-999) while the other sites carry plain $] plus maxRepeat in %s with forward forms. '
             'State = template x form x site x limit; transition = one production / option toggle.' % (
                 b['units'], '; 3 units with counts %s' % b['counts3'] if b['units3'] else '', b['counts'], b['max_product'],
                 ', '.join(SITES), len(FORMS), b['limits']),
        nontrivial='the template contains at least one repeater with count >= 2 (several numbered copies are compared).',
        bounds=b,
        assumptions=['`@^` (parent counter), `*0`, bare `*`, reverse numbering under a truncating maxRepeat, `$` in an attribute name that consists of nothing else '
                     'is left unspecified'],
        explanation='Each template is rendered to an abbreviation, expanded by emmet.expand (format off) and every substituted '
                    'counter string and the number of copies are compared with the reference unroller.',
    )


# ---------------------------------------------------------------- templates
# unit := ('e', rep, children) | ('g', rep, children)      children: list of units (group: non-empty)

def forests(units, leaf_ok=True):
    "all forests with exactly `units` units (shapes only, rep = None)"
    if units == 0:
        yield []
        return
    for first_size in range(1, units + 1):
        for first in trees(first_size):
            for rest in forests(units - first_size):
                yield [first] + rest


def trees(size):
    "all single units with exactly `size` units in total"
    for ch in forests(size - 1):
        yield ('e', None, ch)
        if ch:
            yield ('g', None, ch)


def assign(forest, counts):
    "all assignments of a repeat count (or None) to every unit"
    def units_of(f):
        for u in f:
            yield u
            yield from units_of(u[2])
    n = sum(1 for _ in units_of(forest))
    for combo in itertools.product([None] + list(counts), repeat=n):
        it = iter(combo)

        def build(f):
            return [(u[0], next(it), build(u[2])) for u in f]
        # build in the same pre-order as units_of
        yield build_preorder(forest, list(combo))


def build_preorder(forest, combo):
    pos = [0]

    def build(f):
        out = []
        for u in f:
            rep = combo[pos[0]]
            pos[0] += 1
            out.append((u[0], rep, build(u[2])))
        return out
    return build(forest)


def max_copies(forest):
    "upper bound on the number of produced element instances"
    tot = 0
    for kind, rep, ch in forest:
        inner = max_copies(ch) + (1 if kind == 'e' else 0)
        tot += (rep or 1) * inner
    return tot


def has_group_without_rep_only(forest):
    return False


def element_text(tag, forms):
    "forms: dict site -> numbering form"
    text = forms['text']
    if forms.get('nested_text'):
        text = 'p{q%sr}s' % text            # the numbering run inside balanced inner braces of the text
    if forms.get('jsx'):
        tag = tag.upper()                  # a JSX component name (capitalised) is numbered like any other name
    # the class continues with `-k` right after the numbering token (a dash there belongs to the class, not to the token);
    # e={x..}: an expression value keeps its braces in every copy
    return '%s%s.c%s-k[t=%s u="%s" n%s=k e={x%s}]#i%s{%s%s}' % (tag, forms['name'], forms['class'], forms['attr'], forms['qattr'],
                                                               forms['aname'], forms['eattr'], forms['id'],
                                                               '$#' if forms.get('placeholder') else '', text)


def render(forest, forms, counter=None):
    if counter is None:
        counter = [0]
    out = []
    for kind, rep, ch in forest:
        if kind == 'e':
            tag = TAGS[counter[0] % len(TAGS)] + ('' if counter[0] < len(TAGS) else str(counter[0]))
            counter[0] += 1
            s = element_text(tag, forms)
            if rep:
                s += '*%d' % rep
            if ch:
                s = '(' + s + '>' + render(ch, forms, counter) + ')'
            out.append(s)
        else:
            out.append('(' + render(ch, forms, counter) + ')' + ('*%d' % rep if rep else ''))
    return '+'.join(out)


# ---------------------------------------------------------------- reference unroller
def fmt(form, i, n):
    "counter string for copy i (0-based) of n under the numbering form"
    w = form.count('$')
    m = form[w:]
    rev = m.startswith('@-')
    digits = m[2:] if rev else m[1:]
    base = int(digits) if digits else 1
    v = base + n - 1 - i if rev else base + i
    s = str(v)
    return '0' * max(0, w - len(s)) + s


def reference(forest, limit):
    """-> list of events ('o', tag, (i, n) or None) / ('c', tag): copies are completed in document order until `limit`
    have been completed in total; from then on every repeater still running or met later yields just one copy."""
    out = []
    st = {'done': 0}
    stack = []
    counter = [0]

    def walk(f):
        for kind, rep, ch in f:
            n = rep or 1
            if rep:
                stack.append([0, n])
            tag_index = counter[0]
            for i in range(n):
                if rep:
                    stack[-1][0] = i
                counter[0] = tag_index
                if kind == 'e':
                    tag = TAGS[counter[0] % len(TAGS)] + ('' if counter[0] < len(TAGS) else str(counter[0]))
                    counter[0] += 1
                    out.append(('o', tag, tuple(stack[-1]) if stack else None))
                    walk(ch)
                    out.append(('c', tag))
                else:
                    walk(ch)
                if rep:
                    st['done'] += 1
                    if limit is not None and st['done'] >= limit:
                        break
            if rep:
                stack.pop()
            if n == 0:
                pass
    walk(forest)
    return out


def count_units(f):
    return sum(1 + count_units(u[2]) for u in f)


def observe(abbr, limit, jsx=False):
    cfg = {'options': {'output.format': False}}
    if jsx:
        cfg['syntax'] = 'jsx'
    if limit is not None:
        cfg['maxRepeat'] = limit
    cfg['cache'] = session.CACHE        # the shard's calls share one cache dict (mc/session.py)
    ev = lex_html(expand(abbr, cfg))
    res = []
    j = 0
    while j < len(ev):
        e = ev[j]
        if e[0] == 'o':
            t = ev[j + 1][1] if j + 1 < len(ev) and ev[j + 1][0] == 't' else ''
            res.append(('o', e[1], dict((a, (v if a != 'e' or q == '{' else 'NOT-AN-EXPRESSION:' + str(v))) for a, q, v in e[2]), t))
        elif e[0] == 'c':
            res.append(('c', e[1]))
        j += 1
    return res


def compare(exp, obs, forms):
    """None or (class, detail)"""
    if len(exp) != len(obs):
        return 'copies:count', dict(expected_events=len(exp), actual_events=len(obs))
    for a, b in zip(exp, obs):
        if a[0] != b[0]:
            return 'copies:structure', dict(expected=a, actual=b)
        tag = a[1].upper() if forms.get('jsx') else a[1]
        if a[0] == 'c':
            if b[1][:len(tag)] != tag:
                return 'copies:structure', dict(expected=a, actual=b)
            continue
        rp = a[2]
        want = {}
        for site in SITES:
            f = forms[site]
            if rp is None:
                # "the counter ... is 1 when there is none": with no repeated element or group around the place nothing is
                # counted, so a start value or a direction has nothing to apply to; only the zero padding remains
                w = f.count('$')
                want[site] = '0' * (w - 1) + '1'
            else:
                want[site] = fmt(f, rp[0], rp[1])
        got = dict(name=b[1][len(tag):] if b[1].startswith(tag) else None, attr=b[2].get('t'), qattr=b[2].get('u'),
                   text=b[3])
        got['aname'] = next((an[1:] for an in b[2] if an.startswith('n')), None)
        c = b[2].get('className' if forms.get('jsx') else 'class')
        got['class'] = c[1:-2] if c is not None and c.startswith('c') and c.endswith('-k') else None
        ea = b[2].get('e')
        got['eattr'] = ea[1:] if ea is not None and ea.startswith('x') else ea
        i = b[2].get('id')
        got['id'] = i[1:] if i is not None and i.startswith('i') else None
        if forms.get('nested_text') and want['text'] is not None:
            want['text'] = 'p{q%sr}s' % want['text']
        for site in SITES:
            if want[site] is not None and got[site] != want[site]:
                return 'number:%s' % site, dict(tag=tag, copy=rp, form=forms[site], expected=want[site], actual=got[site])
    return None


def check_one(forest, forms, limit):
    abbr = render(forest, forms)
    exp = reference(forest, limit)
    try:
        obs = observe(abbr, limit, bool(forms.get('jsx')))
    except Exception as e:
        return abbr, ('exception:%s' % type(e).__name__, str(e)[:200])
    return abbr, compare(exp, obs, forms)


def variants(limits):
    "(forms dict, limit) pairs explored per template"
    base = dict((s, '$') for s in SITES)
    yield base, None
    ph = dict(base)
    ph['placeholder'] = True          # `$#` in every text: must not disturb which repeater later `$` runs see
    yield ph, None
    nb = dict(base)
    nb['nested_text'] = True          # `$` inside nested braces of a text, the element's repeater right after the text
    yield nb, None
    nb = dict(nb)
    nb['text'] = '$$@-3'
    yield nb, None
    jx = dict(base)
    jx['jsx'] = True                  # JSX syntax, capitalised component names
    yield jx, None
    jx = dict(jx)
    jx['name'] = '$$@-'
    yield jx, None
    for site in SITES:
        for f in FORMS:
            if f == '$':
                continue
            d = dict(base)
            d[site] = f
            yield d, None
    for lim in limits:
        if lim is None:
            continue
        yield base, lim
        d = dict(base)
        d['name'] = '$$@3'
        d['text'] = '$$$@0'
        yield d, lim


def templates(tier):
    b = BOUNDS[tier]
    for u in range(1, b['units'] + 1):
        for shape in forests(u):
            for f in assign(shape, b['counts']):
                if max_copies(f) <= b['max_product']:
                    yield f
    if b['units3']:
        for shape in forests(3):
            for f in assign(shape, b['counts3']):
                yield f


NSH = 64


def shards(tier):
    return [dict(k=k, of=NSH) for k in range(NSH)]


def run_shard(shard, ctx, tier):
    k, of = shard['k'], shard['of']
    limits = BOUNDS[tier]['limits']
    abbr = None
    for idx, forest in enumerate(templates(tier)):
        if idx % of != k:
            continue
        nontriv = any_rep2(forest)
        for forms, limit in variants(limits):
            ctx.tick((forest, forms, limit))
            ctx.states += 1
            ctx.transitions += 1
            ctx.evals += 1
            ctx.validated += 1
            if nontriv:
                ctx.nontrivial += 1
            abbr, bad = check_one(forest, forms, limit)
            ctx.outcome((count_units(forest), max_copies(forest), limit))
            if bad:
                ctx.violation(bad[0] + ('+maxRepeat' if limit is not None else ''),
                              dict(template=forest, forms=forms, limit=limit, abbr=abbr), bad[1])
    if abbr:
        ctx.sample(dict(abbr=abbr))


def any_rep2(f):
    return any((u[1] or 1) >= 2 or any_rep2(u[2]) for u in f)


def _tup(f):
    return [(u[0], u[1], _tup(u[2])) for u in f]


def check_case(case):
    abbr, bad = check_one(_tup(case['template']), case['forms'], case['limit'])
    if bad:
        return [(bad[0] + ('+maxRepeat' if case['limit'] is not None else ''), bad[1])]
    return []


def repro(case):
    cfg = {'options': {'output.format': False}}
    if case['limit'] is not None:
        cfg['maxRepeat'] = case['limit']
    return 'from emmet import expand\nprint(expand(%r, %r))\n' % (case['abbr'], cfg)
