"""C13  Tabstops are numbered in document order and reported positions are exact.

E2 x E4: abbreviation derivations over element kinds with implicit tabstops (empty attribute values, empty leaves) and
explicit fields, in every markup syntax (HTML formatter and the indentation formatters) and in stylesheet syntaxes, with
the full product of newline x indent x baseIndent.  Both callbacks are installed and record their arguments.
Oracles: (A) without explicit fields the indices are exactly 1..k in document order, k counted on the reference tree;
(B) explicit fields keep relative numbering inside a value, values never collide, implicit tabstops strictly increase;
(C) for every callback invocation of every run: offset / line / column are where the returned string ends up.
"""
import itertools
from emmet import expand
from mc import session
from mc.ref import abbr_model as M

ID = 'C13'

# kind -> (self-closing mark, text?, attribute values: list of 'caret' | [written indices] | None (literal value), text fields)
KINDS = {
    'x': dict(sc=False, attrs=[], text=None),
    'x{t}': dict(sc=False, attrs=[], text='lit'),
    'y[p]': dict(sc=False, attrs=['caret'], text=None),
    'q[p=""]': dict(sc=False, attrs=['caret'], text=None),
    'z[p q=v]': dict(sc=False, attrs=['caret', None], text=None),
    'w[p q]/': dict(sc=True, attrs=['caret', 'caret'], text=None),
    'k/': dict(sc=True, attrs=[], text=None),
    'body': dict(sc=False, attrs=[], text=None),          # in the default output.formatForce list: its caret gets a line of its own
    'e[p=${1} q=${1:d}]': dict(sc=False, attrs=[[1], [1]], text=None),
    'e[p=${2} q=${1}]': dict(sc=False, attrs=[[2], [1]], text=None),
    'f{${1:a} ${3} ${1}}': dict(sc=False, attrs=[], text=[1, 3, 1]),
    # (with comments enabled the HTML formatter repeats the id and class values after the element: two more values)
    'g[id="${1:a}" class="${1:b}" p]': dict(sc=False, attrs=[[1], [1], 'caret'], text=None, comment_values=[[1], [1]]),
    # multi-line text whose largest field index is not on its last line
    'm{${2:a} ${1}\nb ${1:c}}': dict(sc=False, attrs=[], text=[2, 1, 1]),
}
IMPLICIT_KINDS = ['x', 'x{t}', 'y[p]', 'q[p=""]', 'z[p q=v]', 'w[p q]/', 'k/']
POS_KINDS = ['x', 'x{t}', 'y[p]', 'q[p=""]', 'w[p q]/', 'f{${1:a} ${3} ${1}}', 'p{l1\nl2}', 'a', 'img', 'p{l1\n}', 'x{\U0001f389 \U0001d4d0}', 'p{l1\nl2\nl3 ${1:f}}', 'f{${1:a}\n${2:b}}']      # ... a line break that is a text chunk of its own (between two fields)    # ...text ending in its only line break; characters outside the BMP (one code point each, two UTF-16 units)
MARKUP_SYNTAXES = ['html', 'xml', 'jsx', 'haml', 'pug', 'slim']
STYLE_ABBRS = ['p', 'bd', 'p+bd', '@kf', 'trf:rx', 'lg', 'p10+m5-a!', '@ff', 'c#f.5']
STYLE_SYNTAXES = ['css', 'sass', 'stylus']
LAYOUTS = [dict(zip(('output.newline', 'output.indent', 'output.baseIndent'), v))
           for v in itertools.product(('\n', '\r\n', '\r'), ('\t', '    '), ('', '  ', '\t\t'))]
# numbering is checked without formatting, with it, and with every leaf formatted (the caret is then written on an inner line)
NUM_FORMATS = [{'output.format': False}, {'output.format': True}, {'output.format': True, 'output.formatLeafNode': True},
               {'output.format': False, 'comment.enabled': True}]
FIXED_WRAP = ['ul>li*', 'x*>y', 'p>{$#}', 'x[t=$#]*', 'y']
BOUNDS = {
    'quick': dict(num=[(1, 1, 1), (2, 1, 1), (3, 0, 0)], pos=[(1, 0, 1), (2, 0, 0)]),
    'thorough': dict(num=[(1, 1, 1), (2, 1, 1), (3, 1, 0), (3, 0, 1)], pos=[(1, 0, 1), (2, 1, 1), (3, 0, 0)]),
}
NSH = 32


def describe(tier):
    b = BOUNDS[tier]
    return dict(
        rule='Numbering: skeletons with (elements, groups, repeaters) in %s x all kind assignments from %s, syntaxes html, pug and haml, '
             'format off / on / on with formatLeafNode / off with comments enabled. Positions: skeletons in %s x kinds %s x syntaxes %s x all 18 combinations of newline {\\n, \\r\\n, \\r} x indent '
             '{tab, 4 spaces} x baseIndent {"", 2 spaces, 2 tabs} x output.text identity / wrapping variant, plus %d wrap-text '
             'abbreviations with 2 lines and %d stylesheet abbreviations in %s. Transition = one production / one option toggle.' % (
                 b['num'], list(KINDS), b['pos'], POS_KINDS, MARKUP_SYNTAXES, len(FIXED_WRAP), len(STYLE_ABBRS), STYLE_SYNTAXES),
        nontrivial='at least one callback invocation was recorded and checked.',
        bounds=b,
        assumptions=['text with fields on an element that has children (HTML formatter): the children take the place of the first '
                     'field, the remaining fields are checked as one value', 'stylesheet field numbering, options containing newlines and callbacks that return newlines are left unspecified'],
        explanation='Callbacks record (returned string, offset, line, column) for every invocation; after the run each record is checked '
                    'against the final result string.',
    )


def shards(tier):
    return [dict(part='num', k=k, of=NSH) for k in range(NSH)] + [dict(part='pos', k=k, of=NSH) for k in range(NSH)] + \
           [dict(part='fixed')]


# ---------------------------------------------------------------- instrumentation
def run(abbr, cfg, wrap_text=False):
    recs = []

    def field(index, placeholder, **kw):
        ret = '${%d:%s}' % (index, placeholder) if placeholder else '${%d}' % index
        recs.append(('f', ret, kw['offset'], kw['line'], kw['column'], index))
        return ret

    def text(t, **kw):
        ret = ('\xab' + t + '\xbb') if (wrap_text and t.strip()) else t
        recs.append(('t', ret, kw['offset'], kw['line'], kw['column']))
        return ret
    cfg = dict(cfg)
    o = dict(cfg.get('options', {}))
    o['output.field'] = field
    o['output.text'] = text
    cfg['options'] = o
    if cfg.get('type') != 'stylesheet':
        cfg['cache'] = session.CACHE        # the shard's markup calls share one cache dict (mc/session.py)
    out = expand(abbr, cfg)
    return out, recs


def check_positions(out, recs, nl):
    for r in recs:
        ret, off, line, col = r[1], r[2], r[3], r[4]
        if not isinstance(off, int) or out[off:off + len(ret)] != ret:
            return ('callback:offset', dict(record=r[:5], found=out[off:off + len(ret)] if isinstance(off, int) else None, output=out[:200]))
        eline = out[:off].count(nl)
        last = out.rfind(nl, 0, off)
        ecol = off - (last + len(nl) if last >= 0 else 0)
        if line != eline:
            return ('callback:line', dict(record=r[:5], expected_line=eline, output=out[:200]))
        if col != ecol:
            return ('callback:column', dict(record=r[:5], expected_column=ecol, output=out[:200]))
    return None


# ---------------------------------------------------------------- numbering reference
class Unspecified(Exception):
    pass


def values_in_document_order(tree, out=None, syntax='html', comment=False):
    """list of values in output order; value = 'caret' (one implicit tabstop) or list of written field indices"""
    if out is None:
        out = []
    for label, ch, _ in tree:
        k = KINDS[label]
        for a in k['attrs']:
            if a is not None:
                out.append(a)
        leaf = not ch
        after = None
        if k['text'] is not None:
            if k['text'] != 'lit':
                if ch and syntax == 'html':
                    # HTML formatter: the children are written in place of the first field of the text (by design); the
                    # fields after it are still one value: relative numbering kept, no collision with other values
                    after = k['text'][1:]
                else:
                    out.append(k['text'])
        elif leaf and not k['sc']:
            out.append('caret')
        values_in_document_order(ch, out, syntax, comment)
        if after:
            out.append(after)
        if comment and syntax == 'html':
            out.extend(list(v) for v in k.get('comment_values', []))
    return out


def check_numbering(seq, labels, syntax, fmt=0):
    abbr = M.render(seq, labels)
    try:
        out, recs = run(abbr, {'syntax': syntax, 'options': dict(NUM_FORMATS[fmt])})
    except Exception as e:
        return abbr, ('exception:%s' % type(e).__name__, str(e)[:120])
    tree = M.unroll(M.denote(seq, labels))
    try:
        vals = values_in_document_order(tree, None, syntax, bool(NUM_FORMATS[fmt].get('comment.enabled')))
    except Unspecified:
        return abbr, 'unspecified'
    obs = [r[5] for r in recs if r[0] == 'f']
    want_n = sum(1 if v == 'caret' else len(v) for v in vals)
    if len(obs) != want_n:
        return abbr, ('tabstops:count', dict(expected=want_n, got=len(obs), indices=obs, output=out[:200]))
    explicit = any(v != 'caret' for v in vals)
    if not explicit:
        if obs != list(range(1, len(obs) + 1)):
            return abbr, ('tabstops:not-1..k-in-document-order', dict(indices=obs, output=out[:200]))
        return abbr, None
    groups = []
    i = 0
    for v in vals:
        m = 1 if v == 'caret' else len(v)
        groups.append((v, obs[i:i + m]))
        i += m
    seen = set()
    last_implicit = 0
    for v, g in groups:
        if v == 'caret':
            if g[0] <= last_implicit:
                return abbr, ('tabstops:implicit-not-increasing', dict(indices=obs, output=out[:200]))
            last_implicit = g[0]
        else:
            for a in range(len(v)):
                for b_ in range(len(v)):
                    if g[a] - g[b_] != v[a] - v[b_]:
                        return abbr, ('fields:relative-numbering-changed', dict(written=v, got=g, output=out[:200]))
        s = set(g)
        if s & seen:
            return abbr, ('fields:collision-between-values', dict(indices=obs, groups=[gg for _, gg in groups], output=out[:200]))
        seen |= s
    return abbr, None


def cases_num(tier):
    for (n, g, r) in BOUNDS[tier]['num']:
        for seq, _ in M.gen_seqs(n, g, r):
            for labels in itertools.product(list(KINDS), repeat=n):
                yield seq, list(labels)


def cases_pos(tier):
    for (n, g, r) in BOUNDS[tier]['pos']:
        for seq, _ in M.gen_seqs(n, g, r):
            for labels in itertools.product(POS_KINDS, repeat=n):
                yield seq, list(labels)


def run_shard(shard, ctx, tier):
    k, of = shard.get('k'), shard.get('of')
    abbr = None
    if shard['part'] == 'num':
        for idx, (seq, labels) in enumerate(cases_num(tier)):
            if idx % of != k:
                continue
            for syntax in ('html', 'pug', 'haml'):
              for fi in range(len(NUM_FORMATS)):
                ctx.tick((seq, labels, syntax))
                ctx.states += 1
                ctx.transitions += 1
                ctx.evals += 1
                ctx.validated += 1
                abbr, bad = check_numbering(seq, labels, syntax, fi)
                ctx.nontrivial += 1
                if bad == 'unspecified':
                    ctx.skip('text with fields that has children (children replace the first field)')
                    continue
                if bad:
                    ctx.violation(bad[0] + (':formatted' if fi else ''), dict(part='num', seq=seq, labels=labels, syntax=syntax, fmt=fi), bad[1])
            ctx.outcome(tuple(sorted(set(labels))))
    elif shard['part'] == 'pos':
        for idx, (seq, labels) in enumerate(cases_pos(tier)):
            if idx % of != k:
                continue
            abbr = M.render(seq, labels)
            for syntax in MARKUP_SYNTAXES:
                for li, lay in enumerate(LAYOUTS):
                    for wrap in (False, True):
                        ctx.tick((abbr, syntax, li))
                        ctx.states += 1
                        ctx.transitions += 1
                        ctx.evals += 1
                        try:
                            out, recs = run(abbr, {'syntax': syntax, 'options': dict(lay)}, wrap)
                        except Exception as e:
                            ctx.violation('exception:%s' % type(e).__name__, dict(part='pos', abbr=abbr, syntax=syntax, layout=li, wrap=wrap), str(e)[:100])
                            continue
                        ctx.validated += len(recs)
                        if recs:
                            ctx.nontrivial += 1
                        bad = check_positions(out, recs, lay['output.newline'])
                        if bad:
                            ctx.violation(bad[0] + ':' + ('indent-format' if syntax in ('haml', 'pug', 'slim') else 'html-format'),
                                          dict(part='pos', abbr=abbr, syntax=syntax, layout=li, wrap=wrap), bad[1])
            ctx.outcome((len(labels), tuple(sorted(set(labels)))))
    else:
        for li, lay in enumerate(LAYOUTS):
            for wrap in (False, True):
                for abbr in FIXED_WRAP:
                    for syntax in MARKUP_SYNTAXES:
                        ctx.tick((abbr, syntax))
                        ctx.states += 1
                        ctx.transitions += 1
                        ctx.evals += 1
                        out, recs = run(abbr, {'syntax': syntax, 'text': ['w1', ' w2 '], 'options': dict(lay)}, wrap)
                        ctx.validated += len(recs)
                        ctx.nontrivial += 1
                        bad = check_positions(out, recs, lay['output.newline'])
                        if bad:
                            ctx.violation(bad[0] + ':wrap-text', dict(part='fixed', abbr=abbr, syntax=syntax, layout=li, wrap=wrap, text=True), bad[1])
                for abbr in STYLE_ABBRS:
                    for syntax in STYLE_SYNTAXES:
                        ctx.tick((abbr, syntax))
                        ctx.states += 1
                        ctx.transitions += 1
                        ctx.evals += 1
                        out, recs = run(abbr, {'type': 'stylesheet', 'syntax': syntax, 'options': dict(lay)}, wrap)
                        ctx.validated += len(recs)
                        ctx.nontrivial += 1
                        bad = check_positions(out, recs, lay['output.newline'])
                        if bad:
                            ctx.violation(bad[0] + ':stylesheet', dict(part='fixed', abbr=abbr, syntax=syntax, layout=li, wrap=wrap, stylesheet=True), bad[1])
    if abbr:
        ctx.sample(dict(part=shard['part'], abbr=abbr))


def _tuplify(seq):
    out = []
    for item, op in seq:
        if item[0] == 'E':
            out.append((('E', item[1]), op))
        else:
            out.append((('G', _tuplify(item[1]), item[2]), op))
    return out


def check_case(case):
    if case['part'] == 'num':
        _, bad = check_numbering(_tuplify(case['seq']), case['labels'], case['syntax'], case.get('fmt', 0))
        return [(bad[0] + (':formatted' if case.get('fmt') else ''), bad[1])] if bad and bad != 'unspecified' else []
    lay = LAYOUTS[case['layout']]
    if case.get('stylesheet'):
        cfg = {'type': 'stylesheet', 'syntax': case['syntax'], 'options': dict(lay)}
        suffix = ':stylesheet'
    elif case.get('text'):
        cfg = {'syntax': case['syntax'], 'text': ['w1', ' w2 '], 'options': dict(lay)}
        suffix = ':wrap-text'
    else:
        cfg = {'syntax': case['syntax'], 'options': dict(lay)}
        suffix = ':' + ('indent-format' if case['syntax'] in ('haml', 'pug', 'slim') else 'html-format')
    try:
        out, recs = run(case['abbr'], cfg, case['wrap'])
    except Exception as e:
        return [('exception:%s' % type(e).__name__, str(e)[:100])]
    bad = check_positions(out, recs, lay['output.newline'])
    return [(bad[0] + suffix, bad[1])] if bad else []


def repro(case):
    return '# install recording output.field / output.text callbacks and compare their offset/line/column with the result (mc/props/c13.py run())\n# case: %r\n' % (case,)
