"""C01  Markup expansion reproduces the element tree the operators denote.

E2 derivation tree over operator skeletons (elements, > + ^ ^^, groups, *2 *3) x element kinds (named, named '/',
implicit) x configurations (self-closing style x format).  Oracle: reference denotation (mc/ref/abbr_model.py: explicit
parent stack, unrolling, implicit-name table frozen from the property text) compared with the independent lexer's view
of emmet.expand's output.  Plus a composition sweep (start from non-initial states) with no hand-written expectation.
"""
import itertools
from emmet import expand
from mc import session
from mc.lexers import lex_html, structure
from mc.ref import abbr_model as M

ID = 'C01'

CONFIGS = [(style, fmt) for style in ('html', 'xhtml', 'xml') for fmt in (True, False)]
INLINE = ['em', 'span', 'q', 'b', 'a', 'select']     # select is in the documented table AND inline: the table wins
# names for the parent of an implicit element: the documented table, inline names (in the passed list), block names,
# and a name that HTML calls inline but that is NOT in the passed inlineElements list (-> div)
PARENTS = ['ul', 'ol', 'table', 'tbody', 'thead', 'tfoot', 'tr', 'select', 'optgroup', 'p', 'em', 'span', 'q', 'b',
           'div', 'section', 'strong',
           # HTML names are case-insensitive: the table and the inline rule apply to the name whatever its letter case
           'UL', 'Table', 'Tr', 'SELECT', 'OptGroup', 'P', 'Em', 'Section']
# pass with the library's default inlineElements (which lists select, like every Emmet document does): the table still wins
PARENTS_DEFAULT_INLINE = ['em', 'span', 'strong', 'ul', 'ol', 'div', 'p', 'select', 'optgroup', 'table', 'tr', 'Ol', 'STRONG', 'TBody']

BOUNDS = {
    # full: (n, groups, reps) with every kind assignment (3^n) under all 6 configurations
    # dev1: kind assignments with <= 1 non-named element, 2 configurations
    # named: named elements only, 1 configuration
    # implicit: implicit-name sweep; compose: corpus bound for the composition sweep
    'quick': dict(full=[(1, 1, 2), (2, 1, 2), (3, 1, 1)], dev1=[(3, 1, 2), (4, 0, 1)], named=[(4, 1, 1), (5, 0, 1), (6, 0, 0), (7, 0, 0)],
                  implicit=[(1, 1, 1), (2, 1, 1), (3, 1, 0), (4, 0, 0)], compose=(2, 1, 1), climb=7),
    'thorough': dict(full=[(1, 2, 2), (2, 2, 2), (3, 1, 2)], dev1=[(3, 2, 2), (4, 1, 1)], named=[(4, 2, 2), (5, 1, 1), (6, 0, 1), (7, 0, 0)],
                     implicit=[(1, 1, 1), (2, 1, 1), (3, 1, 1), (4, 0, 0)], compose=(2, 1, 1), climb=8),
}
# climb: named chains whose operators also include runs of three and four `^` (over-climbing from depth >= 3), every chain also
# inside a group under a parent (a group climbs with a stack of its own)
CLIMB_OPS = ('>', '+', '^', '^^', '^^^', '^^^^')
NSH = 48


def describe(tier):
    b = BOUNDS[tier]
    return dict(
        rule='E2: all operator skeletons seq := item (op item)*, op in {>,+,^,^^}, item := elem rep? | (seq) rep?, '
             'rep in {*2,*3} with (elements, group nesting, repeaters) bounds: full kind product (named / named-self-closed '
             '/ implicit / name ending in `$` per element) x 6 configurations (html|xhtml|xml x format on|off) for %s; <=1 non-named element x 2 '
             'configurations for %s; named only for %s; implicit-name sweep (every written element that is not the parent of an implicit one ranging over ul/table/em/select/tr; parent of every implicit element ranging over '
             '%d names, inlineElements passed explicitly, plus %d names under the default list) for %s; composition sweep over '
             'all ordered pairs of the corpus %s: expand((A)+(B)) = expand(A)+expand(B), expand(x>(A)) = <x>expand(A)</x>, '
             'expand((A)*2) = expand(A) twice; climb sweep: all named chains of <= %d elements over %s with at least one run of three or '
             'four `^`, alone and (<= 6 elements) as a group under a parent. State = derivation x kinds x configuration; transition = one production / '
             'option toggle.' % (b['full'], b['dev1'], b['named'], len(PARENTS), len(PARENTS_DEFAULT_INLINE), b['implicit'],
                                 b['compose'], b['climb'], list(CLIMB_OPS)),
        nontrivial='the denoted tree has at least two elements after unrolling.',
        bounds=b,
        assumptions=['`>` directly after `)` is left unspecified', 'element names are not snippets/lorem/label',
                     'output is read by an independent lexer (mc/lexers.py)'],
        explanation='Every explored derivation is rendered to an abbreviation, expanded by the real emmet.expand and compared '
                    'event by event with the reference denotation.',
    )


def shards(tier):
    b = BOUNDS[tier]
    out = []
    for mode in ('full', 'dev1', 'named', 'implicit'):
        for (n, g, r) in b[mode]:
            ns = 1 if n <= 1 else NSH
            for k in range(ns):
                out.append(dict(mode=mode, n=n, g=g, r=r, k=k, of=ns))
    for k in range(NSH):
        out.append(dict(mode='compose', bound=list(b['compose']), k=k, of=NSH))
    for k in range(NSH):
        out.append(dict(mode='climb', n=b['climb'], k=k, of=NSH))
    return out


def kind_assignments(n, mode):
    base = ['x%d' % i for i in range(n)]
    if mode == 'named':
        yield base
    elif mode == 'full' and n <= 2:
        # small skeletons: also elements that carry text (an implicit element with text still nests its children)
        # ... and text that holds a tabstop field (the formatter writes such an element through its snippet path)
        alts = ('x%d', 'x%d/', '.c%d', 'x%d$', "x%d{it's}", '.c%d{t}', 'x%d{a${1}b}', 'x%d{${1:p} q}')
        for combo in itertools.product(range(len(alts)), repeat=n):
            yield [alts[c] % i for i, c in enumerate(combo)]
    elif mode == 'dev1':
        yield base
        for i in range(n):
            for alt in ('x%d/' % i, '.c%d' % i, 'x%d$' % i, "x%d{it's}" % i, '.c%d{t "}' % i, '#i%d[a=b]{t}' % i,
                        'x%d{a${1}b}' % i, '.c%d{${0} q}' % i, '[a=b%d]' % i, 'ns:x%d-y_z' % i, 'X%d' % i):
                l = list(base)
                l[i] = alt
                yield l
    else:
        # named, self-closed, implicit, and a name that ends in a numbering `$` (directly followed by the next operator)
        for combo in itertools.product(range(4), repeat=n):
            yield [('x%d' % i, 'x%d/' % i, '.c%d' % i, 'x%d$' % i)[c] for i, c in enumerate(combo)]


def configs_for(mode):
    if mode == 'full':
        return CONFIGS
    if mode == 'dev1':
        return [('html', True), ('xhtml', False)]
    return [('xml', True)]


def observe(abbr, style, fmt, inline=None):
    opts = {'output.selfClosingStyle': style, 'output.format': fmt}
    if inline is not None:
        opts['inlineElements'] = list(inline)
    out = expand(abbr, {'options': opts, 'cache': session.CACHE})       # the shard's calls share one cache dict (mc/session.py)
    return structure(lex_html(out)), out


def check_one(seq, labels, style, fmt, inline, ctx=None):
    abbr = M.render(seq, labels)
    tree = M.unroll(M.denote(seq, labels))
    exp = M.events(tree, style, INLINE if inline is None else inline)
    try:
        got, out = observe(abbr, style, fmt, inline)
    except Exception as e:
        return abbr, tree, ('exception:%s' % type(e).__name__, dict(error=str(e)[:200]))
    if got != exp:
        return abbr, tree, (classify(exp, got), dict(expected=exp[:40], actual=got[:40], output=out[:300]))
    return abbr, tree, None


def classify(exp, got):
    en = [e for e in exp if e[0] == 'o']
    gn = [e for e in got if e[0] == 'o']
    if len(en) != len(gn):
        return 'tree:element-count'
    if [e[1] for e in en] != [e[1] for e in gn]:
        if sorted(e[1] for e in en) == sorted(e[1] for e in gn):
            return 'tree:element-order'
        return 'tree:element-name'
    if [e[2] for e in en] != [e[2] for e in gn]:
        return 'tree:self-closing'
    return 'tree:nesting'


def case_of(seq, labels, style, fmt, inline):
    return dict(seq=seq, labels=labels, style=style, format=fmt, inline=inline, abbr=M.render(seq, labels))


def climb_seqs(nmax):
    for n in range(2, nmax + 1):
        for ops in itertools.product(CLIMB_OPS, repeat=n - 1):
            if not any(len(o) > 2 for o in ops):
                continue            # chains over {>, +, ^, ^^} belong to the `named` sweep
            yield n, [(('E', None), op) for op in ops] + [(('E', None), None)]


def run_climb(shard, ctx):
    k, of = shard['k'], shard['of']
    last = None
    for idx, (n, seq) in enumerate(climb_seqs(shard['n'])):
        if idx % of != k:
            continue
        variants = [(seq, ['x%d' % i for i in range(n)])]
        if n <= 6:
            variants.append(([(('E', None), '>'), (('G', seq, None), '+'), (('E', None), None)], ['x%d' % i for i in range(n + 2)]))
        for sq, labels in variants:
            ctx.tick((sq, labels))
            ctx.states += 1
            ctx.transitions += 1
            ctx.evals += 1
            ctx.validated += 1
            abbr, tree, bad = check_one(sq, labels, 'xml', idx % 2 == 0, None)
            ctx.nontrivial += 1
            ctx.outcome((M.tree_size(tree), M.tree_depth(tree), 'climb'))
            if bad:
                ctx.violation(bad[0], case_of(sq, labels, 'xml', idx % 2 == 0, None), bad[1])
            last = abbr
    if last:
        ctx.sample(dict(mode='climb', abbr=last))


def run_shard(shard, ctx, tier):
    mode = shard['mode']
    if mode == 'compose':
        return run_compose(shard, ctx)
    if mode == 'climb':
        return run_climb(shard, ctx)
    n, g, r, k, of = shard['n'], shard['g'], shard['r'], shard['k'], shard['of']
    last = None
    for idx, (seq, _ru) in enumerate(M.gen_seqs(n, g, r)):
        if idx % of != k:
            continue
        if mode == 'implicit':
            run_implicit(seq, n, ctx)
            continue
        for labels in kind_assignments(n, mode):
            for style, fmt in configs_for(mode):
                ctx.tick((seq, labels))
                ctx.states += 1
                ctx.transitions += 1
                ctx.evals += 1
                ctx.validated += 1
                abbr, tree, bad = check_one(seq, labels, style, fmt, None)
                if M.tree_size(tree) >= 2:
                    ctx.nontrivial += 1
                ctx.outcome((M.tree_size(tree), M.tree_depth(tree), style))
                if bad:
                    ctx.violation(bad[0], case_of(seq, labels, style, fmt, None), bad[1])
                last = abbr
    if last:
        ctx.sample(dict(mode=mode, abbr=last))


def implicit_parent_sites(seq, n):
    "for each mask of implicit elements: the written elements that are parents of an implicit element"
    for mask in range(1, 1 << n):
        # an implicit element is written as a class, an id or a bare attribute set, in turn
        labels = [(('.c%d', '#i%d', '[a=b%d]')[i % 3] % i) if mask >> i & 1 else ('x%d' % i) for i in range(n)]
        tree = M.unroll(M.denote(seq, labels))
        parents = set()

        def walk(nodes, parent):
            for label, ch, index in nodes:
                if label[0] in '.#[' and parent is not None and not (mask >> parent & 1):
                    parents.add(parent)
                walk(ch, index)
        walk(tree, None)
        yield labels, sorted(parents)


# names given to written elements that are NOT the parent of the implicit element (ancestors further up, earlier siblings'
# subtrees, elements left behind by `^^`): they must not influence the implicit name
BYSTANDERS = ['ul', 'table', 'em', 'select', 'tr']


def check_context(seq, labels, name):
    "a `context` element is the parent of the top-level elements only: nested implicit elements still follow their real parent"
    abbr = M.render(seq, labels)
    tree = M.unroll(M.denote(seq, labels))
    exp = M.events(tree, 'html', INLINE, name)
    try:
        out = expand(abbr, {'options': {'output.format': False, 'inlineElements': list(INLINE)}, 'context': {'name': name}})
        got = structure(lex_html(out))
    except Exception as e:
        return ('exception:%s' % type(e).__name__, dict(error=str(e)[:200]))
    if got != exp:
        cls = classify(exp, got)
        return ('implicit-name:context-element' if cls == 'tree:element-name' else cls, dict(abbr=abbr, context=name, expected=exp[:40], actual=got[:40]))
    return None


def run_bystanders(seq, n, labels, parents, ctx):
    for name in ('tr', 'em', 'section'):
        ctx.states += 1
        ctx.transitions += 1
        ctx.evals += 1
        ctx.validated += 1
        ctx.nontrivial += 1
        bad = check_context(seq, labels, name)
        if bad:
            ctx.violation(bad[0], dict(case_of(seq, labels, 'html', False, INLINE), context=name), bad[1])
    for q in range(n):
        if labels[q][0] in '.#[' or q in parents:
            continue
        for name in BYSTANDERS:
            l = list(labels)
            l[q] = name
            ctx.tick((seq, l))
            ctx.states += 1
            ctx.transitions += 1
            ctx.evals += 1
            ctx.validated += 1
            ctx.nontrivial += 1
            abbr, tree, bad = check_one(seq, l, 'html', False, INLINE)
            if bad:
                cls = 'implicit-name:taken-from-an-element-that-is-not-the-parent' if bad[0] == 'tree:element-name' else bad[0]
                ctx.violation(cls, dict(case_of(seq, l, 'html', False, INLINE), bystander=True), bad[1])


def run_implicit(seq, n, ctx):
    for labels, parents in implicit_parent_sites(seq, n):
        run_bystanders(seq, n, labels, parents, ctx)
        if not parents:
            ctx.skip('implicit elements without a named parent element (covered by the full sweep)')
            continue
        for p in parents:
            for inline, names in ((INLINE, PARENTS), (None, PARENTS_DEFAULT_INLINE)):
                for name in names:
                    l = list(labels)
                    l[p] = name
                    ctx.tick((seq, l))
                    ctx.states += 1
                    ctx.transitions += 1
                    ctx.evals += 1
                    ctx.validated += 1
                    ref_inline = inline if inline is not None else ['em', 'span', 'strong', 'select']
                    abbr = M.render(seq, l)
                    tree = M.unroll(M.denote(seq, l))
                    exp = M.events(tree, 'html', ref_inline)
                    try:
                        got, out = observe(abbr, 'html', False, inline)
                    except Exception as e:
                        ctx.violation('exception:%s' % type(e).__name__, dict(case_of(seq, l, 'html', False, inline), implicit=True), str(e)[:200])
                        continue
                    ctx.nontrivial += 1
                    ctx.outcome(tuple(e[1] for e in got if e[0] == 'o'))
                    if got != exp:
                        cls = classify(exp, got)
                        if cls == 'tree:element-name':
                            cls = 'implicit-name'
                        ctx.violation(cls, dict(case_of(seq, l, 'html', False, inline), implicit=True),
                                      dict(expected=exp[:40], actual=got[:40], output=out[:300]))
    ctx.sample(dict(mode='implicit', abbr=M.render(seq, labels)))


def corpus(bound):
    n, g, r = bound
    out = []
    for m in range(1, n + 1):
        for seq, _ in M.gen_seqs(m, g, r):
            base = ['x%d' % i for i in range(m)]
            out.append(M.render(seq, base))
            if m <= 2:
                for i in range(m):
                    for alt in ('x%d/' % i, '.c%d' % i):       # no `$` names here: (A)*2 renumbers them
                        l = list(base)
                        l[i] = alt
                        out.append(M.render(seq, l))
    return out


_EXP = {}
NOFMT = {'options': {'output.format': False}}


def ex(a):
    r = _EXP.get(a)
    if r is None:
        r = _EXP[a] = expand(a, {'options': {'output.format': False}})
    return r


def compose_check(a, b=None):
    "-> list of (class, detail) for the composition laws on A (and the pair A, B)"
    bad = []
    ea = ex(a)
    if b is None:
        got = expand('x>(%s)' % a, {'options': {'output.format': False}})
        if got != '<x>' + ea + '</x>':
            bad.append(('compose:child-of-group', dict(abbr='x>(%s)' % a, expected='<x>' + ea + '</x>', actual=got)))
        got = expand('(%s)*2' % a, {'options': {'output.format': False}})
        if got != ea + ea:
            bad.append(('compose:repeat-group', dict(abbr='(%s)*2' % a, expected=ea + ea, actual=got)))
        got = expand('x>(%s)+y' % a, {'options': {'output.format': False}})
        if got != '<x>' + ea + '<y></y></x>':
            bad.append(('compose:group-then-sibling', dict(abbr='x>(%s)+y' % a, expected='<x>' + ea + '<y></y></x>', actual=got)))
    else:
        eb = ex(b)
        got = expand('(%s)+(%s)' % (a, b), {'options': {'output.format': False}})
        if got != ea + eb:
            bad.append(('compose:sibling-groups', dict(abbr='(%s)+(%s)' % (a, b), expected=ea + eb, actual=got)))
    return bad


def run_compose(shard, ctx):
    C = corpus(tuple(shard['bound']))
    k, of = shard['k'], shard['of']
    for i, a in enumerate(C):
        if i % of != k:
            continue
        ctx.tick(a)
        for cls, d in compose_check(a):
            ctx.violation(cls, dict(compose=[a]), d)
        ctx.states += 3
        ctx.transitions += 3
        ctx.evals += 3
        ctx.validated += 3
        ctx.nontrivial += 3
        for b in C:
            ctx.tick((a, b))
            ctx.states += 1
            ctx.transitions += 1
            ctx.evals += 1
            ctx.validated += 1
            ctx.nontrivial += 1
            for cls, d in compose_check(a, b):
                ctx.violation(cls, dict(compose=[a, b]), d)
    ctx.extra['compose_corpus_size'] = len(C)
    ctx.sample(dict(mode='compose', corpus_size=len(C), last=C[-1]))


def check_case(case):
    if 'compose' in case:
        return compose_check(*case['compose'])
    seq = _tuplify(case['seq'])
    if case.get('context'):
        bad = check_context(seq, case['labels'], case['context'])
        return [bad] if bad else []
    abbr, tree, bad = check_one(seq, case['labels'], case['style'], case['format'], case.get('inline'))
    if bad and bad[0] == 'tree:element-name' and case.get('bystander'):
        bad = ('implicit-name:taken-from-an-element-that-is-not-the-parent', bad[1])
    if bad and bad[0] == 'tree:element-name' and case.get('inline') is not None:
        bad = ('implicit-name', bad[1])
    if bad and bad[0] == 'tree:element-name' and (case.get('implicit') or any(l in PARENTS for l in case['labels'])):
        bad = ('implicit-name', bad[1])
    return [bad] if bad else []


def _tuplify(seq):
    out = []
    for item, op in seq:
        if item[0] == 'E':
            out.append((('E', item[1]), op))
        else:
            out.append((('G', _tuplify(item[1]), item[2]), op))
    return out


def repro(case):
    if 'compose' in case:
        return 'from emmet import expand\n# composition law violated for %r\n' % (case['compose'],)
    return 'from emmet import expand\nprint(expand(%r, {"options": {"output.selfClosingStyle": %r, "output.format": %r}}))\n' % (
        case['abbr'], case['style'], case['format'])
