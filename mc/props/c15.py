"""C15  HAML, Pug and Slim output has one line per element at its depth.

E2: abbreviation derivations (C01 model) over element kinds (ids, classes, omitted div, attribute lists, single and
multi-line text, self-closing) x haml / pug / slim x indent strings.  Oracle: the exact expected line of every element
(head, attribute punctuation of the syntax, text) at indent x depth, computed from the reference tree; one line per
element in document order; multi-line text one level deeper with the syntax's line marker; and the element tree
recovered from the indentation equals the tree of the HTML output for the same abbreviation.
"""
import itertools
from emmet import expand, markup_abbreviation, stringify_markup
from mc import session
from emmet.config import Config
from mc.lexers import lex_html
from mc.ref import abbr_model as M

ID = 'C15'

# kind -> dict(name or None (implicit), id, classes, attrs [(name, value or None)], text lines or None, sc)
KINDS = {
    'x': dict(name='x'),
    'x#i': dict(name='x', id='i'),
    'x.c': dict(name='x', cls=['c']),
    '.c': dict(name=None, cls=['c']),
    '#i': dict(name=None, id='i'),
    'x.c1.c2': dict(name='x', cls=['c1', 'c2']),
    'x.a.b.c': dict(name='x', cls=['a', 'b', 'c']), '.col.x.wide': dict(name=None, cls=['col', 'x', 'wide']),      # one-letter class names
    'x[a=b]': dict(name='x', attrs=[('a', 'b')]),
    'x#i.c[a=b d]': dict(name='x', id='i', cls=['c'], attrs=[('a', 'b'), ('d', None)]),
    'x{t}': dict(name='x', text=['t']),
    'x{l1\nl2}': dict(name='x', text=['l1', 'l2']),
    'br/': dict(name='br', sc=True),
    'div': dict(name='div'),
    'div.k': dict(name='div', cls=['k']),
    'div[a=b]': dict(name='div', attrs=[('a', 'b')]),
    # a name from output.booleanAttributes / a `name.` attribute with a value written: the value is kept like any other
    'x[hidden=until a=b]': dict(name='x', attrs=[('hidden', 'until'), ('a', 'b')]),
    'x[loop=3 e.=v]': dict(name='x', attrs=[('loop', '3'), ('e', 'v')]),
    # an expression value keeps its braces; fields inside multi-line text stay on their text line
    'x[e={v} a=b]': dict(name='x', attrs=[('e', ('expr', 'v')), ('a', 'b')]),
    'x{l1\nl2 ${1:f} l3}': dict(name='x', text=['l1', 'l2 f l3']),
    'x{l1 ${1:g}\nl2${0}}': dict(name='x', text=['l1 g', 'l2']),
    'x{l1\n\nl3}': dict(name='x', text=['l1', '', 'l3']),          # an empty text line is a line
    # the other two spellings of a line break, and a line break directly before a field (the text chunk ends with it)
    'x{l1\rl2}': dict(name='x', text=['l1', 'l2']), 'x{l1\r\nl2}': dict(name='x', text=['l1', 'l2']),
    'x{l1\n${1:f}}': dict(name='x', text=['l1', 'f']),
    # an implied attribute without a value is not written (also when it is the only / the last one); with a value it is
    'x[!t]': dict(name='x'), 'x[a=b !t]': dict(name='x', attrs=[('a', 'b')]), 'x[!t=v]': dict(name='x', attrs=[('t', 'v')]),
    # boolean attributes (listed names, matched whatever their letter case) in each syntax's own boolean form
    'x[disabled a=b]': dict(name='x', attrs=[('disabled', ('bool',)), ('a', 'b')]), 'x[readOnly]': dict(name='x', attrs=[('readOnly', ('bool',))]),
    'x.k1.k2.k3.k4.k5.k6.k7.k8.k9.k10.k11': dict(name='x', cls=['k%d' % i for i in range(1, 12)]),
}
SMALL = ['x', '.c', 'x#i.c[a=b d]', 'x{l1\nl2}', 'br/', 'div[a=b]']
MID = ['x', '.c', 'x#i.c[a=b d]', 'x{l1\nl2}', 'br/', 'x[hidden=until a=b]', 'x[e={v} a=b]', 'x{l1\nl2 ${1:f} l3}', 'x{l1\n\nl3}', 'x[a=b !t]', 'x[disabled a=b]', 'x{l1\rl2}']
TINY = ['x', '.c', 'x{l1\nl2}', 'br/']
SYNTAXES = ['haml', 'pug', 'slim']
INDENTS = ['\t', '  ', '    ']
BOUNDS = {
    # (elements, groups, repeaters, kind set, indents)
    'quick': dict(sweeps=[(1, 1, 1, 'all', INDENTS), (2, 0, 0, 'all', INDENTS[:1]), (2, 1, 1, 'mid', INDENTS[:2]), (3, 0, 0, 'mid', INDENTS[:1]),
                          (4, 0, 0, 'tiny', INDENTS[:1])]),
    'thorough': dict(sweeps=[(1, 1, 1, 'all', INDENTS), (2, 1, 1, 'all', INDENTS[:2]), (3, 0, 0, 'mid', INDENTS[:1]), (3, 1, 1, 'tiny', INDENTS[:1]),
                             (4, 0, 0, 'tiny', INDENTS[:1])]),
}
NSH = 48


def describe(tier):
    b = BOUNDS[tier]
    return dict(
        rule='E2: operator skeletons with (elements, groups, repeaters, kind set, indents) in %s over kinds %s (small: %s) x syntaxes %s. '
             'Clauses under the first indent string: output.format off and the xhtml style change nothing, output.attributeCase upper changes the names in the attribute list only, the parsed tree can be formatted twice; the calls of a shard share one cache dict. Transition = one production / next indent string.' % (b['sweeps'], list(KINDS), SMALL, SYNTAXES),
        nontrivial='the abbreviation has at least two elements (relative depth is exercised).',
        bounds=b,
        assumptions=['how a text-only node itself is written, and trailing-space conventions, are left unspecified (lines are compared '
                     'right-stripped); the lines of the elements after a text-only leaf are compared with those after an element leaf'],
        explanation='Expected lines are computed from the reference tree (never from emmet); the HTML output of the same abbreviation is '
                    'read by the independent lexer for the tree-equality clause.',
    )


def shards(tier):
    out = []
    for si in range(len(BOUNDS[tier]['sweeps'])):
        for k in range(NSH):
            out.append(dict(sweep=si, k=k, of=NSH))
    return out


def expected_lines(tree, syntax, indent, depth=0, parent_name='', out=None, upper=False):
    if out is None:
        out = []
    for label, ch, _ in tree:
        k = KINDS[label]
        name = k.get('name') or M.implicit_name(parent_name, ())
        has_primary = bool(k.get('id') or k.get('cls'))
        head = ''
        if not (name == 'div' and has_primary):
            head = ('%' if syntax == 'haml' else '') + name
        if k.get('id'):
            head += '#' + k['id']
        if k.get('cls'):
            head += '.' + '.'.join(k['cls'])
        attrs = k.get('attrs') or []
        if attrs:
            def part(a, v):
                if upper:
                    a = a.upper()           # output.attributeCase applies to the names in the attribute list, never to #id / .class
                if isinstance(v, tuple) and v[0] == 'bool':
                    return a + '=true' if syntax == 'haml' else a
                if isinstance(v, tuple):
                    return '%s={%s}' % (a, v[1])
                return '%s="%s"' % (a, v if v is not None else '')
            parts = [part(a, v) for a, v in attrs]
            if syntax == 'haml':
                head += '(' + ' '.join(parts) + ')'
            elif syntax == 'pug':
                head += '(' + ', '.join(parts) + ')'
            else:
                head += ' ' + ' '.join(parts)
        text = k.get('text')
        line = head
        extra = []
        if k.get('sc') and not ch and not text:
            line += '' if syntax == 'pug' else '/'
        elif text and len(text) == 1:
            line += ' ' + text[0]
        elif text:
            w = max(len(t) for t in text)
            for t in text:
                if syntax == 'haml':
                    extra.append(indent * (depth + 1) + t.ljust(w) + ' |')
                else:
                    extra.append(indent * (depth + 1) + '| ' + t)
        out.append((indent * depth + line).rstrip())
        out += [e.rstrip() for e in extra]
        expected_lines(ch, syntax, indent, depth + 1, name, out, upper)
    return out


def ref_tree(tree, parent_name=''):
    out = []
    for label, ch, _ in tree:
        k = KINDS[label]
        name = k.get('name') or M.implicit_name(parent_name, ())
        out.append((name, k.get('id'), ' '.join(k['cls']) if k.get('cls') else None, ref_tree(ch, name)))
    return out


def html_tree(abbr):
    ev = lex_html(expand(abbr, {'options': {'output.format': False}}))
    root = []
    stack = [root]
    for e in ev:
        if e[0] == 'o':
            at = dict((a, v) for a, q, v in e[2])
            node = (e[1], at.get('id'), at.get('class'), [])
            stack[-1].append(node)
            stack.append(node[3])
        elif e[0] == 'c':
            stack.pop()
    return root


def html_tree_void(abbr, void_names=('br',)):
    "html tree where void elements without close tag (html style) do not open a level"
    ev = lex_html(expand(abbr, {'options': {'output.format': False, 'output.selfClosingStyle': 'xml', 'inlineElements': []}}))
    root = []
    stack = [root]
    for e in ev:
        if e[0] == 'o':
            at = dict((a, v) for a, q, v in e[2])
            node = (e[1], at.get('id'), at.get('class'), [])
            stack[-1].append(node)
            if not e[3]:
                stack.append(node[3])
        elif e[0] == 'c':
            stack.pop()
    return root


def check(seq, labels, syntax, indent):
    abbr = M.render(seq, labels)
    tree = M.unroll(M.denote(seq, labels))
    try:
        out = expand(abbr, {'syntax': syntax, 'options': {'output.indent': indent, 'inlineElements': []}, 'cache': session.CACHE})     # shared per shard (mc/session.py)
    except Exception as e:
        return abbr, [('exception:%s' % type(e).__name__, str(e)[:120])]
    bad = []
    got = [l.rstrip() for l in out.split('\n')]
    exp = expected_lines(tree, syntax, indent)
    if got != exp:
        bad.append((classify(exp, got, indent), dict(abbr=abbr, syntax=syntax, indent=indent, expected=exp[:12], got=got[:12])))
    if indent != INDENTS[0]:
        return abbr, bad           # the option-independence, tree-reuse and HTML-tree clauses are checked under the first indent string
    # line breaks and indentation are the structure of these syntaxes: switching output.format off changes nothing
    try:
        out2 = expand(abbr, {'syntax': syntax, 'options': {'output.indent': indent, 'inlineElements': [], 'output.format': False}})
        if out2 != out:
            bad.append(('lines:differ-with-output.format-off', dict(abbr=abbr, syntax=syntax, formatted=out[:200], unformatted=out2[:200])))
    except Exception as e:
        bad.append(('exception-format-off:%s' % type(e).__name__, str(e)[:120]))
    # ... and so does the XHTML self-closing style (it only differs from the HTML style in how HTML writes ` />`)
    try:
        out3 = expand(abbr, {'syntax': syntax, 'options': {'output.indent': indent, 'inlineElements': [], 'output.selfClosingStyle': 'xhtml'}})
        if out3 != out:
            bad.append(('lines:differ-under-the-xhtml-style', dict(abbr=abbr, syntax=syntax, html_style=out[:200], xhtml_style=out3[:200])))
    except Exception as e:
        bad.append(('exception-xhtml-style:%s' % type(e).__name__, str(e)[:120]))
    # output.attributeCase changes the names in the attribute list only: #id and .class stay shorthands, `div` stays omitted
    try:
        out4 = expand(abbr, {'syntax': syntax, 'options': {'output.indent': indent, 'inlineElements': [], 'output.attributeCase': 'upper'}})
        exp4 = expected_lines(tree, syntax, indent, upper=True)
        got4 = [l.rstrip() for l in out4.split('\n')]
        if got4 != exp4:
            bad.append(('lines:attribute-case-upper', dict(abbr=abbr, syntax=syntax, expected=exp4[:12], got=got4[:12])))
    except Exception as e:
        bad.append(('exception-attribute-case:%s' % type(e).__name__, str(e)[:120]))
    # formatting must not consume the parsed tree: the same tree formatted twice (and as HTML afterwards) gives the same text
    try:
        cfg = Config({'syntax': syntax, 'options': {'output.indent': indent, 'inlineElements': []}})
        t = markup_abbreviation(abbr, cfg)
        first = stringify_markup(t, cfg)
        second = stringify_markup(t, cfg)
        if not (first == second == out):
            bad.append(('formatter-consumes-the-tree', dict(abbr=abbr, syntax=syntax, first=first[:200], second=second[:200])))
    except Exception as e:
        bad.append(('exception-reformat:%s' % type(e).__name__, str(e)[:120]))
    try:
        ht = html_tree_void(abbr)
    except Exception as e:
        return abbr, bad + [('exception-html:%s' % type(e).__name__, str(e)[:120])]
    if ht != ref_tree(tree):
        bad.append(('html-tree-differs-from-reference', dict(abbr=abbr, html=ht, reference=ref_tree(tree))))
    return abbr, bad


def classify(exp, got, indent):
    if len(exp) != len(got):
        return 'lines:count'

    def depth(l):
        d = 0
        while l.startswith(indent):
            l = l[len(indent):]
            d += 1
        return d, l
    de = [depth(l) for l in exp]
    dg = [depth(l) for l in got]
    if [d for d, _ in de] != [d for d, _ in dg]:
        return 'lines:indentation-differs-from-depth'
    return 'lines:content'


def cases(tier, si):
    n, g, r, kset, indents = BOUNDS[tier]['sweeps'][si]
    kinds = {'all': list(KINDS), 'small': SMALL, 'mid': MID, 'tiny': TINY}[kset]
    for seq, _ in M.gen_seqs(n, g, r):
        for labels in itertools.product(kinds, repeat=n):
            yield seq, list(labels), indents


def check_text_node(seq, labels, syntax, indent):
    """A text-only node in the place of a leaf element: how it is written itself is left unspecified, but the lines of all elements
    after it are the same as when an element `s9` stands there (the depth bookkeeping does not depend on what a leaf is)."""
    bad = []
    opts = {'syntax': syntax, 'options': {'output.indent': indent, 'inlineElements': []}}
    for i in range(1, len(labels)):
        l_el = list(labels)
        l_el[i] = 's9'
        l_tx = list(labels)
        l_tx[i] = '{t9}'
        a_el, a_tx = M.render(seq, l_el), M.render(seq, l_tx)
        try:
            out_el = expand(a_el, opts).split('\n')
            out_tx = expand(a_tx, opts).split('\n')
        except Exception as e:
            bad.append(('exception:%s' % type(e).__name__, str(e)[:120]))
            continue
        marks = [j for j, l in enumerate(out_el) if l.strip().rstrip('/').strip() in ('s9', '%s9')]
        if not marks:
            continue
        j = marks[-1]
        ind = len(out_el[j]) - len(out_el[j].lstrip())
        tail = out_el[j + 1:]
        if not tail or (len(tail[0]) - len(tail[0].lstrip())) > ind:
            continue              # nothing after it, or it is not a leaf (a text-only node with children is something else)
        if len(marks) > 1:
            continue              # repeated: several copies
        if out_tx[len(out_tx) - len(tail):] != tail:
            bad.append(('lines:elements-after-a-text-only-node-move', dict(with_element=a_el, with_text_node=a_tx, syntax=syntax,
                                                                            expected_tail=tail[:8], actual=out_tx[-len(tail) - 1:][:9])))
    return bad


def run_shard(shard, ctx, tier):
    si, k, of = shard['sweep'], shard['k'], shard['of']
    abbr = None
    for idx, (seq, labels, indents) in enumerate(cases(tier, si)):
        if idx % of != k:
            continue
        for syntax in SYNTAXES:
            for indent in indents:
                ctx.tick((seq, labels, syntax))
                ctx.states += 1
                ctx.transitions += 1
                ctx.evals += 2
                ctx.validated += 1
                if len(labels) >= 2:
                    ctx.nontrivial += 1
                abbr, bad = check(seq, labels, syntax, indent)
                for cls, d in bad:
                    ctx.violation(cls, dict(seq=seq, labels=labels, syntax=syntax, indent=indent), d)
                if indent == INDENTS[0] and 2 <= len(labels) <= 3 and all(l in TINY for l in labels):
                    ctx.evals += 2 * (len(labels) - 1)
                    for cls, d in check_text_node(seq, labels, syntax, indent):
                        ctx.violation(cls, dict(seq=seq, labels=labels, syntax=syntax, indent=indent, text_node=True), d)
        ctx.outcome((len(labels), tuple(sorted(set(labels)))))
    if abbr:
        ctx.sample(dict(abbr=abbr))


def _tuplify(seq):
    out = []
    for item, op in seq:
        if item[0] == 'E':
            out.append((('E', item[1]), op))
        else:
            out.append((('G', _tuplify(item[1]), item[2]), op))
    return out


def check_case(case):
    if case.get('text_node'):
        return check_text_node(_tuplify(case['seq']), case['labels'], case['syntax'], case['indent'])
    return check(_tuplify(case['seq']), case['labels'], case['syntax'], case['indent'])[1]


def repro(case):
    abbr = M.render(_tuplify(case['seq']), case['labels'])
    return 'from emmet import expand\nprint(expand(%r, {"syntax": %r, "options": {"output.indent": %r}}))\n' % (abbr, case['syntax'], case['indent'])
