"""C11  extract finds exactly the abbreviation that ends at the caret.

Consistency: E1 typing tree over the extract alphabet x every position -1..len+1 x type x lookAhead x prefix.
Round trip: E2 over valid abbreviations (elements joined by operators, grouped) embedded after every left context and
before every right context, caret at the abbreviation's end; look-ahead clause with the caret before an auto-inserted
tail of closing quote/brackets.
"""
import re, itertools
from emmet import extract, expand
from mc import explore
from mc.alphabets import SIGMA_X

ID = 'C11'

PREFIXES = ['', '<', '&', '=>']
ELEMENTS = ['a', 'ul', 'li.c', 'p#i', 'x[t=v]', 'x[t="a b"]', 'x[t]', 'd{text}', 's{a b}', 'e$', 'h1', 'my-el', 'x:y', '.c', '#i',
            'x[a=b c=d]', "q[t='v']", 't{a{b}c}', 'br/', 'x[t="(a b)"]', 'x[t="f(1, \'2\')"]', 'd{a (b c) [d e]}',
            'p{a < b}', 'x[t="1<2"]',        # the prefix character inside text / a quoted value
            # nested braces inside text with round / square brackets to their left, to their right and around them
            'f{[${1:x}]}', 'g{(a {b}) c}', 'h{{a} [b]}',
            'y[t="=>"]']                     # the two-character prefix inside a quoted value (a partial match of it follows the `]`)
JOINS = ['>', '+', '^', '*3>', '*2+']
STYLE_ABBRS = ['p10', 'm10-20', 'c#fc0.5', 'p10!', '@m', 'd:n', 'p10+m20', 'w100p', 'm-10--20', 'trf-s(2)', 'bd1-s', 'fz1.5e', 'lg(a,b)']
LEFT = ['', ' ', 'foo ', '\t', '<div>', '<a href="x">', '</p>', '<br/>', '<img src=x>', '<p class=a>', 'a b="c" ', '> ',
        '<img alt="it\'s" />', "<p title='say \"hi\"' id=x>", '<input value="don\'t" disabled>',
        # complete tags whose unquoted attribute values hold balanced brackets (JSX expressions, handlers)
        '<div className={styles.foo}>', '<button onclick=go()>', '<i data-x=[1]>', '<a b={c[0]} d=(e)>',
        # runs of blanks inside the tag (column-aligned attributes, a tab, blanks before `/>`)
        '<div  id=main>', '<ul\t class=nav>', '<br  />', '<input   disabled>',
        # colons and dashes in tag and attribute names
        '<svg:rect>', '<a xml:lang=en>', '</xsl:template>', '<button v-on:click="save" disabled>', '<x-y z-w=q>']
RIGHT = ['', ' bar', '</div>', '<b>']
BOUNDS = {
    'quick': dict(line=4, line5=False, elements=2),
    'thorough': dict(line=4, line5=True, elements=3),
}


def describe(tier):
    b = BOUNDS[tier]
    return dict(
        rule='Consistency E1: all lines over %s with <= %d symbols x every position -1..len+1 x type {markup, stylesheet} x lookAhead x '
             'prefix %s%s. Round trip E2: all abbreviations of <= %d elements from %s joined by %s (plus one level of grouping), each first '
             'checked to expand, and %d stylesheet abbreviations, x left contexts %s x right contexts %s, caret at the end; look-ahead '
             'clause: caret before the trailing closing quote/brackets. Transition = one appended symbol / caret move / option toggle / '
             'one more element.' % (SIGMA_X, b['line'], PREFIXES, '; length 5 with lookAhead on and prefix in ["", "<"]' if b['line5'] else '',
                                    b['elements'], ELEMENTS, JOINS, len(STYLE_ABBRS), LEFT, RIGHT),
        nontrivial='extract returned a result (its fields are checked) / every round-trip case.',
        bounds=b,
        assumptions=['abbreviations whose quoted values or text contain unbalanced brackets or spaces outside brackets, and left contexts '
                     'that end in a partial tag are left unspecified'],
        explanation='Direct exploration of emmet.extract; the round trip uses abbreviations generated from a grammar, never parsed by the oracle.',
    )


def shards(tier):
    b = BOUNDS[tier]
    out = []
    for sh in explore.strings_shards(SIGMA_X, b['line'], 2):
        out.append(dict(kind='cons', reduced=False, **sh))
    if b['line5']:
        for sh in explore.strings_shards(SIGMA_X, 5, 2):
            if not sh.get('short'):
                out.append(dict(kind='cons', reduced=True, minlen=5, **sh))
    for i in range(len(ELEMENTS)):
        out.append(dict(kind='round', first=i))
    out.append(dict(kind='round-style'))
    return out


def consistency(s, p, typ, la, pre):
    try:
        r = extract(s, p, {'type': typ, 'lookAhead': la, 'prefix': pre})
    except Exception as e:
        return 'exc', ('extract:exception:%s' % type(e).__name__, str(e)[:80])
    if r is None:
        return 'none', None
    n = len(s)
    cp = min(n, max(0, p))
    if not (isinstance(r.start, int) and isinstance(r.location, int) and isinstance(r.end, int) and 0 <= r.start <= r.location <= r.end <= n):
        return 'res', ('fields-not-ordered-or-outside-line', repr(r))
    if r.abbreviation != s[r.location:r.end]:
        return 'res', ('abbreviation-is-not-the-text-between-location-and-end', repr(r))
    if r.abbreviation[:1] in ('>', '+', '^', '*'):
        return 'res', ('dangling-operator-at-start', repr(r))
    if pre:
        if not (s[r.start:r.start + len(pre)] == pre and r.start + len(pre) <= r.location):
            return 'res', ('prefix-not-at-start', repr(r))
    elif r.start != r.location:
        return 'res', ('start-differs-from-location-without-prefix', repr(r))
    tail = s[cp:r.end]
    rx = r'^["\']?[)\]}]*$' if typ == 'markup' else r'^["\']?\)*$'
    if r.end < cp or (not la and r.end != cp) or not re.match(rx, tail):
        return 'res', ('look-ahead-moved-end-across-other-characters', repr(r))
    return 'res', None


# look-ahead switched off: whatever follows the caret (the closers look-ahead would cross included) is left alone
NOLA_LEFT = ['', 'x = "', "y('", 'foo ']
NOLA_RIGHT = ['"', "'", ')', ']', '}', '">', ' z']


def roundtrip_nola(left, abbr, right, typ):
    line = left + abbr + right
    caret = len(left) + len(abbr)
    try:
        r = extract(line, caret, {'type': typ, 'lookAhead': False})
    except Exception as e:
        return ('roundtrip:exception:%s' % type(e).__name__, str(e)[:80])
    exp = dict(abbreviation=abbr, location=len(left), start=len(left), end=caret)
    got = None if r is None else dict(abbreviation=r.abbreviation, location=r.location, start=r.start, end=r.end)
    if got != exp:
        return (classify(left, abbr, got) + ':look-ahead-off', dict(expected=exp, got=got))
    return None


PREFIX_LEFT = ['', ' ', 'foo ', 'return ', 'x = ', '<div>']


def roundtrip(left, abbr, right, typ, tail='', prefix=''):
    "caret after abbr[:len-len(tail)]; expected: exactly abbr at len(left) (+ the prefix found at `start`)"
    line = left + prefix + abbr + right
    caret = len(left) + len(prefix) + len(abbr) - len(tail)
    try:
        r = extract(line, caret, {'type': typ, 'prefix': prefix} if prefix else {'type': typ})
    except Exception as e:
        return ('roundtrip:exception:%s' % type(e).__name__, str(e)[:80])
    exp = dict(abbreviation=abbr, location=len(left) + len(prefix), start=len(left), end=len(left) + len(prefix) + len(abbr))
    if r is None:
        return (classify(left, abbr, None), dict(expected=exp, got=None))
    got = dict(abbreviation=r.abbreviation, location=r.location, start=r.start, end=r.end)
    if got != exp:
        return (classify(left, abbr, got), dict(expected=exp, got=got))
    return None


def classify(left, abbr, got):
    if got is not None and abbr.endswith(got['abbreviation']) and got['abbreviation'] != abbr:
        cut = len(abbr) - len(got['abbreviation'])
        if cut > 0 and abbr[cut - 1] == '>':
            return 'roundtrip:cut-after-gt-taken-for-tag-end'
        return 'roundtrip:suffix-only'
    if got is not None and got['abbreviation'].endswith(abbr):
        return 'roundtrip:left-context-included'
    if got is None:
        return 'roundtrip:none'
    return 'roundtrip:other'


def tails_of(abbr):
    m = re.search(r'["\']?[)\]}]+$', abbr)
    if not m:
        return ['']
    t = m.group(0)
    out = ['']
    # the caret may sit before any suffix of the closing run (quote only directly at the caret)
    for k in range(1, len(t) + 1):
        suf = t[len(t) - k:]
        if suf[0] in '"\'' or all(c in ')]}' for c in suf):
            out.append(suf)
    return out


_VALID = {}


def valid(abbr, typ):
    k = (abbr, typ)
    if k not in _VALID:
        try:
            expand(abbr, {'type': typ} if typ == 'stylesheet' else {})
            _VALID[k] = True
        except Exception:
            _VALID[k] = False
    return _VALID[k]


BIG = '\x00'        # marks the three-element abbreviations (plain round trip only; the prefix / look-ahead-off variants stop at two)


def abbreviations(first, nmax):
    e0 = ELEMENTS[first]
    yield e0
    if nmax >= 2:
        for j in JOINS:
            for e1 in ELEMENTS:
                yield e0 + j + e1
                yield '(' + e0 + j + e1 + ')*2'
                if nmax >= 3:
                    for j2 in JOINS:
                        for e2 in ELEMENTS:
                            yield BIG + e0 + j + e1 + j2 + e2
                    yield BIG + e0 + '>(' + e1 + '+' + ELEMENTS[(first + 3) % len(ELEMENTS)] + ')'


def run_shard(shard, ctx, tier):
    b = BOUNDS[tier]
    if shard['kind'] == 'cons':
        reduced = shard['reduced']
        minlen = shard.get('minlen', 0)
        las = (True,) if reduced else (True, False)
        pres = PREFIXES[:2] if reduced else PREFIXES
        s = None
        for t in explore.strings_of_shard(SIGMA_X, shard):
            if len(t) < minlen:
                continue
            s = ''.join(t)
            ctx.states += 1
            ctx.tick(s)
            for p in range(-1, len(s) + 2):
                # a call that relies on the defaults, made between calls with explicit options, behaves like the explicit defaults
                try:
                    a = extract(s, p)
                    b_ = extract(s, p, {'type': 'markup', 'lookAhead': True, 'prefix': ''})
                except Exception:
                    a = b_ = None
                if repr(a) != repr(b_):
                    ctx.violation('consistency:default-options-differ-from-explicit-defaults',
                                  dict(line=s, pos=p, type=None, lookAhead=None, prefix=None), dict(default_call=repr(a), explicit_call=repr(b_)))
                for typ in ('markup', 'stylesheet'):
                    for la in las:
                        for pre in pres:
                            ctx.transitions += 1
                            ctx.evals += 1
                            ctx.validated += 1
                            kind, bad = consistency(s, p, typ, la, pre)
                            if kind == 'res':
                                ctx.nontrivial += 1
                            if bad:
                                ctx.violation('consistency:' + bad[0] if not bad[0].startswith('extract:') else bad[0],
                                              dict(line=s, pos=p, type=typ, lookAhead=la, prefix=pre), bad[1])
            ctx.outcome((len(s), s[-1:] in '>+^*'))
        if s is not None:
            ctx.sample(dict(line=s, positions='-1..%d' % (len(s) + 1)))
        return
    if shard['kind'] == 'round-style':
        gen = [(a, 'stylesheet') for a in STYLE_ABBRS]
    else:
        gen = ((a, 'markup') for a in abbreviations(shard['first'], b['elements']))
    abbr = None
    for abbr, typ in gen:
        big = abbr.startswith(BIG)
        abbr = abbr.lstrip(BIG)
        ctx.tick(abbr)
        if not valid(abbr, typ):
            ctx.skip('generated abbreviation does not expand (not valid)')
            continue
        ctx.states += 1
        for left in LEFT:
            for right in RIGHT:
                for tail in tails_of(abbr):
                    ctx.transitions += 1
                    ctx.evals += 1
                    ctx.validated += 1
                    ctx.nontrivial += 1
                    bad = roundtrip(left, abbr, right, typ, tail)
                    if bad:
                        ctx.violation(bad[0], dict(left=left, abbr=abbr, right=right, type=typ, tail=tail), bad[1])
        for left in ([] if big else NOLA_LEFT):
            for right in NOLA_RIGHT:
                ctx.transitions += 1
                ctx.evals += 1
                ctx.validated += 1
                ctx.nontrivial += 1
                bad = roundtrip_nola(left, abbr, right, typ)
                if bad:
                    ctx.violation(bad[0], dict(left=left, abbr=abbr, right=right, type=typ, nola=True), bad[1])
        if typ == 'markup' and not big:
            # the same with a configured prefix written before the abbreviation
            for left in PREFIX_LEFT:
                for right in RIGHT[:2]:
                    for tail in tails_of(abbr):
                        for prefix in PREFIXES[1:]:
                            ctx.transitions += 1
                            ctx.evals += 1
                            ctx.validated += 1
                            ctx.nontrivial += 1
                            bad = roundtrip(left, abbr, right, typ, tail, prefix)
                            if bad:
                                ctx.violation(bad[0] + ':with-prefix', dict(left=left, abbr=abbr, right=right, type=typ, tail=tail, prefix=prefix), bad[1])
        ctx.outcome((len(abbr), typ))
    if abbr:
        ctx.sample(dict(left=LEFT[5], abbr=abbr, right=RIGHT[2]))


def check_case(case):
    if 'line' in case and case.get('type') is None:
        extract(case['line'], case['pos'], {'type': 'stylesheet', 'lookAhead': False, 'prefix': '<'})
        a = extract(case['line'], case['pos'])
        b_ = extract(case['line'], case['pos'], {'type': 'markup', 'lookAhead': True, 'prefix': ''})
        return [('consistency:default-options-differ-from-explicit-defaults', dict(default_call=repr(a), explicit_call=repr(b_)))] if repr(a) != repr(b_) else []
    if 'line' in case:
        kind, bad = consistency(case['line'], case['pos'], case['type'], case['lookAhead'], case['prefix'])
        if bad:
            return [('consistency:' + bad[0] if not bad[0].startswith('extract:') else bad[0], bad[1])]
        return []
    if case.get('nola'):
        bad = roundtrip_nola(case['left'], case['abbr'], case['right'], case['type'])
        return [bad] if bad else []
    bad = roundtrip(case['left'], case['abbr'], case['right'], case['type'], case.get('tail', ''), case.get('prefix', ''))
    if bad and case.get('prefix'):
        bad = (bad[0] + ':with-prefix', bad[1])
    return [bad] if bad else []


def repro(case):
    if 'line' in case:
        return 'from emmet import extract\nprint(extract(%r, %r, {"type": %r, "lookAhead": %r, "prefix": %r}))\n' % (
            case['line'], case['pos'], case['type'], case['lookAhead'], case['prefix'])
    pre = case.get('prefix', '')
    line = case['left'] + pre + case['abbr'] + case['right']
    return 'from emmet import extract\nprint(extract(%r, %d, {"type": %r, "prefix": %r}))  # expected abbreviation %r\n' % (
        line, len(case['left']) + len(pre) + len(case['abbr']) - len(case.get('tail', '')), case['type'], pre, case['abbr'])
