"""C20  Configuration layers override each other in the documented order.

E5 over the layer lattice: for every (type, syntax incl. unknown names, kind, naturally layered key) the explorer walks
all subsets of the three caller-controlled layers (global-for-type, global-for-syntax, call config), adding one layer per
transition; the two built-in upper layers (type defaults, syntax defaults) are present or absent according to the key
chosen, which gives all 2^5 subsets of overriding layers.  Oracle: a plain fold over the layers in the documented order
(whole-dict comparison), the same winner observed through emmet.expand, and unchanged built-in tables / caller dicts.
"""
import copy, itertools
import emmet.config as C
from emmet.config import Config
from emmet import expand

ID = 'C20'

KINDS = ('snippets', 'options', 'variables')
# None = no `syntax` key in the call config: the default syntax of the type (html / css) applies
TYPES = {'markup': ['html', 'xml', 'xsl', 'jsx', 'js', 'pug', 'slim', 'haml', 'vue', 'svelte', 'xhtml', 'nosuch', 'zz-syntax', None],
         'stylesheet': ['css', 'sass', 'scss', 'less', 'sss', 'stylus', 'nosuch', 'zz-syntax', None]}
DEFAULT_SYNTAX = {'markup': 'html', 'stylesheet': 'css'}
KEYS = {
    'snippets': ['!!!', 'a', 'tm', 'zz', 'p', 'bd'],
    'options': ['output.selfClosingStyle', 'stylesheet.after', 'stylesheet.between', 'jsx.enabled', 'markup.attributes',
                'output.newline', 'output.indent', 'nokey'],
    'variables': ['lang', 'newvar'],
}
LAYERS = ('global-type', 'global-syntax', 'call')


def freeze(o):
    "deep snapshot in which callables are kept by identity"
    if isinstance(o, dict):
        return {k: freeze(v) for k, v in o.items()}
    if isinstance(o, (list, tuple)):
        return [freeze(v) for v in o]
    return o


TABLES0 = freeze(dict(DEFAULT_CONFIG=C.DEFAULT_CONFIG, DEFAULT_OPTIONS=C.DEFAULT_OPTIONS, SYNTAX_CONFIG=C.SYNTAX_CONFIG,
                      DEFAULT_SYNTAXES=C.DEFAULT_SYNTAXES))


def tables_now():
    return freeze(dict(DEFAULT_CONFIG=C.DEFAULT_CONFIG, DEFAULT_OPTIONS=C.DEFAULT_OPTIONS, SYNTAX_CONFIG=C.SYNTAX_CONFIG,
                       DEFAULT_SYNTAXES=C.DEFAULT_SYNTAXES))


def describe(tier):
    n = sum(len(v) for v in TYPES.values())
    return dict(
        rule='E5 layer lattice, complete: %d (type, syntax) pairs incl. unknown syntax names x kinds %s x keys %s x all 8 subsets '
             'of the caller-controlled layers %s (built-in type/syntax layers present per key: !!! = type+syntax under pug/xsl, '
             'a/p/bd = type only, tm = syntax only under xsl, zz = neither; options naturally set at syntax level for '
             'xml/xsl/xhtml/jsx/vue/svelte/sass/stylus). Each layer writes a value naming itself and a private extra key. '
             'Transition = adding one layer.' % (n, KINDS, KEYS, LAYERS),
        nontrivial='at least two layers define the key (an override actually happens).',
        bounds=dict(pairs=n, subsets=8),
        assumptions=['stylesheet expansions of all states of a process go through one shared cache dict', 'every transition is also executed on the live objects: expand() with the dicts of the smaller subset, the new '
                     'layer written into the same dicts in place, expand() again = expand() with fresh dicts', 'every state is preceded by a resolution of the same syntax name under the other abbreviation type (and the '
                     'same global config)', 'the reference fold reads the *contents* of the built-in tables from a snapshot taken at start-up; their '
                     'precedence is what is checked', 'a `text: None` entry written into the call config by expand() equals absent '
                     '(C08 covers it)', 'syntax name equal to the type name is left unspecified'],
        explanation='Every lattice state is built with the real Config(user, global) and through emmet.expand and compared with '
                    'the fold; the lattice is finite and enumerated completely in both tiers.',
    )


def shards(tier):
    return [dict(type=t, syntax=s) for t in TYPES for s in TYPES[t]]


def marker(kind, key, layer, typ):
    "a well-typed value naming the layer"
    tag = {'global-type': 'L3', 'global-syntax': 'L4', 'call': 'L5'}[layer]
    if kind == 'snippets':
        return ('%s-prop:1' % tag.lower()) if typ == 'stylesheet' else ('%sx' % tag.lower())
    if kind == 'variables':
        return tag
    if key == 'markup.attributes':
        return {'class': 'class' + tag}
    if key == 'jsx.enabled':
        return tag           # truthy marker (Config level only)
    if key == 'output.newline':
        return '\n' + tag
    if key == 'output.indent':
        return tag + ' '
    if key in ('stylesheet.after', 'stylesheet.between'):
        return ' ' + tag + ' '
    return tag


# values that the most specific present layer may write instead of its marker: a layer that *mentions* a key defines it,
# whatever the value (None and the falsy values included)
TOP_VALUES = ['MARKER', None, '', 0, False]


def build(typ, syn, kind, key, subset, top='MARKER'):
    user = {'type': typ, 'syntax': syn}
    if syn is None:
        del user['syntax']
        syn = DEFAULT_SYNTAX[typ]
    glob = {}
    for layer in subset:
        val = marker(kind, key, layer, typ)
        extra = 'only-' + layer
        if layer == 'global-type':
            d = glob.setdefault(typ, {}).setdefault(kind, {})
        elif layer == 'global-syntax':
            d = glob.setdefault(syn, {}).setdefault(kind, {})
        else:
            d = user.setdefault(kind, {})
        d[key] = val if (top == 'MARKER' or layer != subset[-1]) else top
        d[extra] = 'x' + layer if kind != 'snippets' or typ == 'markup' else 'x-prop:2'
    return user, glob


def fold(typ, syn, kind, user, glob):
    "the documented order, lowest first"
    T = TABLES0
    if syn is None:
        syn = DEFAULT_SYNTAX[typ]
    res = {}
    for layer in (T['DEFAULT_CONFIG'].get(kind, {}), T['SYNTAX_CONFIG'].get(typ, {}).get(kind, {}),
                  T['SYNTAX_CONFIG'].get(syn, {}).get(kind, {}), glob.get(typ, {}).get(kind, {}),
                  glob.get(syn, {}).get(kind, {}), user.get(kind, {})):
        res.update(layer)
    return res


def defining_layers(typ, syn, kind, key, subset):
    T = TABLES0
    if syn is None:
        syn = DEFAULT_SYNTAX[typ]
    n = 0
    for layer in (T['DEFAULT_CONFIG'].get(kind, {}), T['SYNTAX_CONFIG'].get(typ, {}).get(kind, {}),
                  T['SYNTAX_CONFIG'].get(syn, {}).get(kind, {})):
        if key in layer:
            n += 1
    return n + len(subset)


def probe(typ, kind, key):
    "abbreviation whose expansion shows the effective value of the key, or None"
    if kind == 'snippets':
        return key if key not in ('!!!',) or typ == 'markup' else None
    if kind == 'variables':
        # the variable written directly in the abbreviation, and variables used inside snippet bodies (built-in `doc`: lang, charset)
        return 'x[lang=${%s}]+doc' % key if typ == 'markup' else None
    if typ == 'markup' and key in ('output.newline', 'output.indent'):
        return 'x>y'
    if typ == 'markup' and key == 'markup.attributes':
        return 'x.k'
    if typ == 'markup' and key == 'jsx.enabled':
        return 'Foo.Bar'               # read by the parser: a component name when the option is on, element + class when off
    if typ == 'stylesheet' and key in ('stylesheet.after', 'stylesheet.between', 'output.newline'):
        return 'p10+m5'
    return None


SHARED_CACHE = {}


def other_value(v):
    "another well-typed value of the same shape"
    if isinstance(v, dict):
        return dict((k, other_value(x)) for k, x in v.items())
    if isinstance(v, str):
        return v.replace(':1', ':9') if ':1' in v else v + '9'
    return v


def check_state(typ, syn, kind, key, subset, top='MARKER'):
    """-> (list of violations, info)"""
    bad = []
    user, glob = build(typ, syn, kind, key, subset, top)
    u0, g0 = copy.deepcopy(user), copy.deepcopy(glob)
    exp = fold(typ, syn, kind, user, glob)
    # the same syntax name resolved under the other abbreviation type first: nothing of that resolution may be reused
    other = 'stylesheet' if typ == 'markup' else 'markup'
    try:
        Config({'type': other, 'syntax': syn or DEFAULT_SYNTAX[typ]}, copy.deepcopy(g0))
    except Exception:
        pass
    try:
        cfg = Config(user, glob)
    except Exception as e:
        return [('config:exception:%s' % type(e).__name__, str(e)[:200])], None
    got = getattr(cfg, kind)
    if got != exp:
        diff = sorted(k for k in set(got) | set(exp) if got.get(k, '<absent>') != exp.get(k, '<absent>'))
        if diff == [key] or key in diff:
            bad.append(('precedence:%s' % kind, dict(key=key, expected=repr(exp.get(key, '<absent>'))[:80],
                                                      actual=repr(got.get(key, '<absent>'))[:80], layers=list(subset))))
        else:
            bad.append(('untouched-key-changed:%s' % kind, dict(keys=diff[:6], layers=list(subset))))
    if len(g0) > 1:
        # the order in which the caller happened to write the entries of the global config is not a layer order
        try:
            got_r = getattr(Config(copy.deepcopy(u0), dict(reversed(list(copy.deepcopy(g0).items())))), kind)
        except Exception as e:
            got_r = 'EXC:' + type(e).__name__
        if got_r != exp:
            bad.append(('precedence-depends-on-dict-order:%s' % kind, dict(key=key, layers=list(subset),
                                                                           actual=repr(got_r.get(key, '<absent>') if isinstance(got_r, dict) else got_r)[:80],
                                                                           expected=repr(exp.get(key, '<absent>'))[:80])))
    for other in KINDS:
        if other != kind and getattr(cfg, other) != fold(typ, syn, other, user, glob):
            bad.append(('other-kind-disturbed:%s' % other, dict(kind=kind, layers=list(subset))))
    if user != u0 or glob != g0:
        bad.append(('caller-dict-modified:Config', dict(layers=list(subset))))
    if tables_now() != TABLES0:
        bad.append(('builtin-table-modified:Config', dict(layers=list(subset))))
    # the same winner through expand
    pr = probe(typ, kind, key) if top == 'MARKER' else None
    if pr is not None:
        user2, glob2 = copy.deepcopy(u0), copy.deepcopy(g0)
        user3, glob3 = copy.deepcopy(u0), {}
        # reference: expansion under a call config that states the folded dicts explicitly and no global config
        user3['snippets'] = fold(typ, syn, 'snippets', user, glob)
        user3['options'] = fold(typ, syn, 'options', user, glob)
        user3['variables'] = fold(typ, syn, 'variables', user, glob)
        if typ == 'stylesheet':
            user2['cache'] = SHARED_CACHE          # one cache for all states of the process: it must never change a result
        try:
            a = expand(pr, user2, glob2)
        except Exception as e:
            a = 'EXC:' + type(e).__name__
        user2.pop('cache', None)
        try:
            b = expand(pr, user3, glob3)
        except Exception as e:
            b = 'EXC:' + type(e).__name__
        if a != b:
            bad.append(('expand-winner:%s' % kind, dict(key=key, probe=pr, layered=a[:120], explicit=b[:120], layers=list(subset))))
        if typ == 'stylesheet' and '<' in a:
            # an absolute anchor: whatever the syntax name, a stylesheet abbreviation is never expanded by the markup pipeline
            bad.append(('stylesheet-type-expanded-as-markup', dict(key=key, probe=pr, syntax=syn, output=a[:120], layers=list(subset))))
        if typ == 'markup':
            # the same pair once more with wrap text in the call configuration (markup hides the text from the snippet resolver)
            ut, ue = copy.deepcopy(u0), copy.deepcopy(user3)
            ut['text'] = ue['text'] = 'T9'
            try:
                at = expand(pr, ut, copy.deepcopy(g0))
            except Exception as e:
                at = 'EXC:' + type(e).__name__
            try:
                bt = expand(pr, ue, {})
            except Exception as e:
                bt = 'EXC:' + type(e).__name__
            if at != bt:
                bad.append(('expand-winner-with-wrap-text:%s' % kind, dict(key=key, probe=pr, layered=at[:120], explicit=bt[:120], layers=list(subset))))
        if key == 'jsx.enabled' and not a.startswith('EXC:') and syn not in ('pug', 'haml', 'slim'):     # (these write both readings alike)
            # an absolute expectation as well: both expansions above go through the same parser
            if ('<Foo.Bar' in a) != bool(exp.get(key)):
                bad.append(('expand-winner-absolute:options', dict(key=key, probe=pr, effective_value=repr(exp.get(key)), output=a[:120], layers=list(subset))))
        user2.pop('text', None) if user2.get('text', 0) is None else None
        if user2 != u0 or glob2 != g0:
            bad.append(('caller-dict-modified:expand', dict(layers=list(subset))))
        if subset and key != 'jsx.enabled':
            # the same layers and the same names once more, with other values (through the same cache): the new values show
            user4, glob4 = copy.deepcopy(u0), copy.deepcopy(g0)
            for d_ in [user4.get(kind, {})] + [sec.get(kind, {}) for sec in glob4.values()]:
                if key in d_:
                    d_[key] = other_value(d_[key])
            user5 = copy.deepcopy(user4)
            for kd in KINDS:
                user5[kd] = fold(typ, syn, kd, user4, glob4)
            if typ == 'stylesheet':
                user4['cache'] = SHARED_CACHE
            try:
                a4 = expand(pr, user4, glob4)
            except Exception as e:
                a4 = 'EXC:' + type(e).__name__
            try:
                b4 = expand(pr, user5, {})
            except Exception as e:
                b4 = 'EXC:' + type(e).__name__
            if a4 != b4:
                bad.append(('expand-winner-after-value-change:%s' % kind, dict(key=key, probe=pr, layered=a4[:120], explicit=b4[:120], layers=list(subset))))
        if tables_now() != TABLES0:
            bad.append(('builtin-table-modified:expand', dict(layers=list(subset))))
        return bad, (repr(got.get(key, '<absent>'))[:40], a[:60])
    return bad, (repr(got.get(key, '<absent>'))[:40], None)


def assign_in_place(dst, src):
    "make dict dst equal to src without replacing dst (nested dicts are updated in place too)"
    for k in list(dst):
        if k not in src:
            del dst[k]
    for k, v in src.items():
        if isinstance(v, dict) and isinstance(dst.get(k), dict):
            assign_in_place(dst[k], v)
        else:
            dst[k] = copy.deepcopy(v)


def check_live_transition(typ, syn, kind, key, sub, sub2):
    "the caller adds a layer to the very dicts it passed before: the next call sees the new contents"
    pr = probe(typ, kind, key)
    if pr is None:
        return []
    user, glob = build(typ, syn, kind, key, sub)
    user2, glob2 = build(typ, syn, kind, key, sub2)

    def ex(u, g):
        try:
            return expand(pr, u, g)
        except Exception as e:
            return 'EXC:' + type(e).__name__
    # the reference first, with dicts of its own: whatever the library might remember about the live dicts cannot reach it
    fresh = ex(copy.deepcopy(user2), copy.deepcopy(glob2))
    ex(user, glob)
    user.pop('text', None) if user.get('text', 0) is None else None
    assign_in_place(user, user2)
    assign_in_place(glob, glob2)
    live = ex(user, glob)
    if live != fresh:
        return [('layer-added-in-place-not-seen:%s' % kind, dict(key=key, probe=pr, before=list(sub), after=list(sub2), live=live[:120], fresh=fresh[:120]))]
    return []


def run_shard(shard, ctx, tier):
    typ, syn = shard['type'], shard['syntax']
    for kind in KINDS:
        for key in KEYS[kind]:
            # breadth-first over the subset lattice: states = subsets, transitions = adding one layer
            seen = set()
            frontier = [()]
            while frontier:
                nxt = []
                for sub in frontier:
                    if sub in seen:
                        continue
                    seen.add(sub)
                    ctx.tick((typ, syn, kind, key, sub))
                    ctx.states += 1
                    ctx.evals += 1
                    ctx.validated += 1
                    bad, info = check_state(typ, syn, kind, key, sub)
                    if sub:
                        for top in TOP_VALUES[1:]:
                            ctx.evals += 1
                            ctx.validated += 1
                            b2, _ = check_state(typ, syn, kind, key, sub, top)
                            for cls, d in b2:
                                ctx.violation(cls + ':value=%r' % (top,), dict(type=typ, syntax=syn, kind=kind, key=key, layers=list(sub), top=top), d)
                    if defining_layers(typ, syn, kind, key, sub) >= 2:
                        ctx.nontrivial += 1
                    ctx.outcome((kind, key, info))
                    for cls, d in bad:
                        ctx.violation(cls, dict(type=typ, syntax=syn, kind=kind, key=key, layers=list(sub)), d)
                    for l in LAYERS:
                        if l not in sub:
                            ctx.transitions += 1
                            sub2 = tuple(x for x in LAYERS if x in sub or x == l)
                            nxt.append(sub2)
                            ctx.evals += 2
                            ctx.validated += 1
                            for cls, d in check_live_transition(typ, syn, kind, key, sub, sub2):
                                ctx.violation(cls, dict(type=typ, syntax=syn, kind=kind, key=key, layers=list(sub), then=list(sub2)), d)
                frontier = nxt
    ctx.sample(dict(type=typ, syntax=syn, kind='snippets', key='!!!', layers=list(LAYERS)))


def check_case(case):
    if 'then' in case:
        return check_live_transition(case['type'], case['syntax'], case['kind'], case['key'], tuple(case['layers']), tuple(case['then']))
    top = case.get('top', 'MARKER')
    bad, _ = check_state(case['type'], case['syntax'], case['kind'], case['key'], tuple(case['layers']), top)
    return [(c + ':value=%r' % (top,), d) for c, d in bad] if 'top' in case else bad


def repro(case):
    user, glob = build(case['type'], case['syntax'], case['kind'], case['key'], tuple(case['layers']))
    return 'from emmet.config import Config\nc = Config(%r, %r)\nprint(c.%s.get(%r))  # the most specific defining layer must win\n' % (
        user, glob, case['kind'], case['key'])
