"""C08  Expansion is a pure function of its arguments.

E5: explicit-state breadth-first search over histories of real emmet.expand calls on objects shared between the calls
(config dicts, a Config object, cache dicts).  Every history is replayed from scratch in freshly re-imported emmet
modules; the canonical state is the deep canonical form of every caller-owned object, a fingerprint of every module-level
container / mutable function default / class attribute of emmet.*, and the (abstracted) count of emmet objects that
stay alive without being reachable from caller-owned objects.  Oracle, on every transition: the result equals the result
of the same call made first in a fresh interpreter state; caller-owned configuration is unchanged; nothing leaks.
"""
import sys, gc, types, copy, collections

ID = 'C08'

BOUNDS = {'quick': dict(depth=4, global_depth=8), 'thorough': dict(depth=7, global_depth=12)}


def describe(tier):
    b = BOUNDS[tier]
    return dict(
        rule='E5 BFS over call histories: operation menu of %d real expand() calls (%s) on shared objects A, T, O (Config object), B, '
             'C1, C2 (caches), G (global config); one global BFS from the fresh state to the fixpoint, all histories of length 2, and (thorough) '
             'one BFS per first operation, depth <= %d or fixpoint; histories replayed in freshly imported modules; '
             'states deduplicated by canonical form. Leak clause: every operation repeated 4 times from the fresh state. '
             'Abstraction validation: a history that reaches an already known state (depth <= 2) is probed with every fourth operation (rotating offset) '
             'and must give the representative\'s results.' % (len(OPS), ', '.join(o[0] for o in OPS), b['depth']),
        nontrivial='histories of length >= 2 (a probe call after at least one earlier call on shared objects).',
        bounds=b,
        exhaustive=True,
        assumptions=['emmet keeps no state outside sys.modules["emmet*"] and caller-owned objects (no files, no environment)',
                     'lorem (random by design) and the identity of returned strings are left unspecified',
                     'a `text: None` entry in a caller dict equals an absent entry'],
        explanation='Explicit-state model checking of the real library: transitions are real calls, states are canonical snapshots of '
                    'all state that survives a call; traces_validated = transitions whose result was compared with the fresh-state result.',
        case_time_limit=60.0,
    )


# ---------------------------------------------------------------- the closed system
def fresh():
    for m in list(sys.modules):
        if m == 'emmet' or m.startswith('emmet.'):
            del sys.modules[m]
    import emmet
    return emmet


TEXT_CFG = {'text': ['x', 'y'], 'snippets': {'bad': 'x["'}}
USER_SNIPPETS = {'mten': 'margin:10px', 'gp': 'grid-gap:10'}


GLOBAL_CFG = {'markup': {'options': {'output.attributeQuotes': 'single'}, 'snippets': {'zz': 'zzz[g=m]'}},
              'xml': {'options': {'output.selfClosingStyle': 'xhtml'}, 'snippets': {'zz': 'zzz[g=x]'}},
              'stylesheet': {'options': {'stylesheet.intUnit': 'pt'}}}


def make_env(em):
    return {
        'A': {},
        'T': copy.deepcopy(TEXT_CFG),
        'O': em.Config(copy.deepcopy(TEXT_CFG)),
        'B': {'options': {'bem.enabled': True}},
        'C1': {},
        'C2': {},
        'G': copy.deepcopy(GLOBAL_CFG),
        'SO': em.Config({'type': 'stylesheet', 'cache': {}}),
        # what an editor passes when wrapping an empty selection: falsy wrap text in a configuration that is reused
        'TE': {'text': [], 'options': {'output.field': FIELD}},
        'TS': {'text': '', 'options': {'output.field': FIELD}},
    }


def FIELD(index, placeholder, **kw):
    return '${%d:%s}' % (index, placeholder) if placeholder else '${%d}' % index


def css(em, env, abbr, cache=None, options=None, snippets=None, context=None):
    cfg = {'type': 'stylesheet'}
    if context:
        cfg['context'] = {'name': context}
    if cache:
        cfg['cache'] = env[cache]
    if options:
        cfg['options'] = dict(options)
    if snippets:
        cfg['snippets'] = dict(snippets)
    return em.expand(abbr, cfg)


class SelfCheck(AssertionError):
    pass


def seq_edit_call_config(em, e):
    "the caller edits its own dict in place between two calls: the second call sees the new contents"
    d = {'options': {'output.selfClosingStyle': 'html', 'output.format': False}, 'snippets': {}}
    r1 = em.expand('br+zq', d)
    d['options']['output.selfClosingStyle'] = 'xhtml'
    d['snippets']['zq'] = 'span.q'
    r2 = em.expand('br+zq', d)
    if (r1, r2) != ('<br><zq></zq>', '<br /><span class="q"></span>'):
        raise SelfCheck('SELFCHECK call config edited in place: %r' % ((r1, r2),))
    return r1, r2


def seq_edit_global_config(em, e):
    g = {'markup': {'snippets': {'foo': 'div.first'}}, 'stylesheet': {'options': {'stylesheet.intUnit': 'pt'}}}
    r1 = em.expand('foo', {}, g), em.expand('m10', {'type': 'stylesheet'}, g)
    g['markup']['snippets']['foo'] = 'span.second'
    g['stylesheet']['options']['stylesheet.intUnit'] = 'rem'
    r2 = em.expand('foo', {}, g), em.expand('m10', {'type': 'stylesheet'}, g)
    if (r1, r2) != (('<div class="first"></div>', 'margin: 10pt;'), ('<span class="second"></span>', 'margin: 10rem;')):
        raise SelfCheck('SELFCHECK global config edited in place: %r' % ((r1, r2),))
    return r1, r2


def seq_edit_config_object(em, e):
    "a long-lived Config with its own cache whose snippet table is edited in place"
    c = em.Config({'type': 'stylesheet', 'cache': {}, 'options': {'output.field': FIELD}})
    r1 = em.expand('bd+zz', c)
    c.snippets['bd'] = 'border-color:red|blue'
    c.snippets['zz'] = 'zoom:2'
    r2 = em.expand('bd+zz', c)
    if (r1, r2) != ('border: ${1:1px} ${2:solid} ${3:#000};', 'border-color: ${1:red};\nzoom: 2;'):
        raise SelfCheck('SELFCHECK Config.snippets edited in place: %r' % ((r1, r2),))
    return r1, r2


OPS = [
    ('m_ok', lambda em, e: em.expand('ul>li.item$*2>a', e['A'])),
    ('m_wrap', lambda em, e: em.expand('ul>li*', e['T'])),
    ('m_fail_early', lambda em, e: em.expand('a[b="', e['T'])),
    ('m_fail_late', lambda em, e: em.expand('bad>p', e['T'])),
    ('o_wrap', lambda em, e: em.expand('ul>li*', e['O'])),
    ('o_fail_late', lambda em, e: em.expand('bad>p', e['O'])),
    ('bem_e', lambda em, e: em.expand('div.b>div.-e', e['B'])),
    ('bem_m', lambda em, e: em.expand('div.b_m>p.-e_m', e['B'])),
    ('css_p10', lambda em, e: css(em, e, 'p10', 'C1')),
    ('css_p10_pt', lambda em, e: css(em, e, 'p10', 'C1', {'stylesheet.intUnit': 'pt'})),
    ('css_zom_u', lambda em, e: css(em, e, 'zom', 'C1', {'stylesheet.unitless': []})),
    ('css_zom', lambda em, e: css(em, e, 'zom', 'C1')),
    ('css_posa', lambda em, e: css(em, e, 'pos:a+bd+c#f', 'C1', {'stylesheet.shortHex': False})),
    ('css_user', lambda em, e: css(em, e, 'mten+gp', 'C2', None, USER_SNIPPETS)),
    ('css_user_pt', lambda em, e: css(em, e, 'gp', 'C2', {'stylesheet.intUnit': 'pt'}, USER_SNIPPETS)),
    ('css_nouser', lambda em, e: css(em, e, 'mten+gp', 'C2')),
    ('css_user_other_values', lambda em, e: css(em, e, 'mten+gp', 'C2', None, {'mten': 'margin:20px', 'gp': 'grid-gap:20'})),   # same names
    ('css_nocache', lambda em, e: css(em, e, 'zom+p10+mten')),
    ('m_fail_nested', lambda em, e: em.expand('outer+p', {'snippets': {'outer': 'div>inner', 'inner': 'x["'}})),
    ('m_nested_ok', lambda em, e: em.expand('outer+p', {'snippets': {'outer': 'div>inner', 'inner': 'x[y]'}})),
    ('m_fail_in_builtin_chain', lambda em, e: em.expand('!', {'snippets': {'meta:vp': 'meta["'}})),
    ('m_html5', lambda em, e: em.expand('!', e['A'])),
    ('css_alias', lambda em, e: css(em, e, 'p10r+w10w+m5q', None, {'stylesheet.unitAliases': {'e': 'em', 'p': '%', 'x': 'ex', 'r': ' / @rem', 'w': 'vw'}})),
    ('css_alias_default', lambda em, e: css(em, e, 'p10r+w10w+m5p', 'C1')),
    ('so_zom_p10', lambda em, e: em.expand('zom+p10+trf-s', e['SO'])),
    ('so_args', lambda em, e: em.expand('trf-s(3)+m1.5', e['SO'])),
    ('css_fn_args', lambda em, e: css(em, e, 'trf-s(2)+trf:translate(10, 20)', 'C1')),
    ('css_fn', lambda em, e: css(em, e, 'trf-s+trf:trs+lg(to right, #0)', 'C1', {'output.field': FIELD})),
    ('css_section', lambda em, e: css(em, e, '@kf+m10', 'C1', None, None, '@@section')),
    ('css_property', lambda em, e: css(em, e, '@kf+m10', 'C1', None, None, '@@property')),
    ('css_value', lambda em, e: css(em, e, 'c+fs', 'C1', None, None, 'align-content')),
    ('css_sass_json', lambda em, e: em.expand('p10+bgc#f', {'type': 'stylesheet', 'syntax': 'sass', 'cache': e['C1'],
                                                             'options': {'stylesheet.json': True}})),
    ('m_cachekey', lambda em, e: em.expand('ul>li', {'cache': e['C1']})),
    ('g_xml', lambda em, e: em.expand('img+zz+!!!', {'syntax': 'xml'}, e['G'])),
    ('g_html', lambda em, e: em.expand('img+zz+!!!', {}, e['G'])),
    ('g_pug', lambda em, e: em.expand('zz+!!!', {'syntax': 'pug'}, e['G'])),
    ('g_css', lambda em, e: em.expand('p10', {'type': 'stylesheet', 'cache': e['C2']}, e['G'])),
    ('m_doctype', lambda em, e: em.expand('!!!+tm', e['A'])),
    ('m_xsl', lambda em, e: em.expand('!!!+tm', {'syntax': 'xsl'})),
    ('m_wrap_empty_list', lambda em, e: em.expand('ul>li*+a', e['TE'])),
    ('m_wrap_empty_str', lambda em, e: em.expand('ul>li*+a', e['TS'])),
    # markup calls through a shared cache that differ in variables / maxRepeat only
    ('m_doc_cache', lambda em, e: em.expand('!', {'cache': e['C1']})),
    ('m_doc_cache_vars', lambda em, e: em.expand('!', {'cache': e['C1'], 'variables': {'lang': 'de', 'charset': 'ISO-8859-1'}})),
    ('m_rows_cache_limit', lambda em, e: em.expand('rows+a', {'cache': e['C1'], 'snippets': {'rows': 'tr*4>td'}, 'maxRepeat': 2})),
    ('m_rows_cache', lambda em, e: em.expand('rows+a', {'cache': e['C1'], 'snippets': {'rows': 'tr*4>td'}})),
    # the same parent name / the same class string met under different configurations
    ('m_implicit_default', lambda em, e: em.expand('section>.intro+em>.k', e['A'])),
    ('m_implicit_inline', lambda em, e: em.expand('section>.note+em>.k', {'options': {'inlineElements': ['section', 'span', 'a']}})),
    ('bem_card', lambda em, e: em.expand('section.card_big>p.-x', e['B'])),
    ('bem_context', lambda em, e: em.expand('.-title', {'options': {'bem.enabled': True},
                                                         'context': {'name': 'div', 'attributes': {'class': 'card_big'}}})),
    # a call that ends inside nested braces of a text (one that returns, one that raises), then ordinary text
    ('m_nested_open', lambda em, e: em.expand('span{{foo', e['A'])),
    ('m_nested_open_fail', lambda em, e: em.expand('p{a{${', e['A'])),
    ('m_text_sibling', lambda em, e: em.expand('p{x}+q', e['A'])),
    # markup through the shared cache with and without comment templates of its own
    ('m_cache_comment_default', lambda em, e: em.expand('ul>li.item#foo', {'cache': e['C1'], 'options': {'comment.enabled': True}})),
    ('m_cache_comment_custom', lambda em, e: em.expand('ul>li.item#foo', {'cache': e['C1'], 'options': {
        'comment.enabled': True, 'comment.before': '<!-- [#ID] -->\n', 'comment.after': ' <!-- end of [.CLASS] -->'}})),
    ('seq_edit_call_config', seq_edit_call_config),
    ('after_edit_call_config', lambda em, e: em.expand('br+zq', {'options': {'output.selfClosingStyle': 'xhtml', 'output.format': False}, 'snippets': {'zq': 'span.q'}})),
    ('seq_edit_global_config', seq_edit_global_config),
    ('seq_edit_config_object', seq_edit_config_object),
    # a snippet table whose conversion raises half-way, through a shared cache: the failure must be repeatable
    ('css_bad_table', lambda em, e: css(em, e, 'm10', 'C2', None, {'dsp': 'display:block|none|', 'mten': 'margin:10px'})),
    # snippets are linked to each other (a shorthand property knows its longhands and resolves keywords through them): a table
    # that redefines a longhand with one more keyword must not change what the shorthand resolves for the holder of another cache
    ('css_dep_kw', lambda em, e: css(em, e, 'bg:t+bd:da+fl:l', 'C1')),
    ('css_dep_kw_user', lambda em, e: css(em, e, 'bg:t+bd:da+bgcp', 'C2', None,
                                          {'bgcp': 'background-clip:padding-box|border-box|content-box|text', 'bds': 'border-style:dark|dashed'})),
    # a markup caller that keeps a cache dict while its list-valued options change between calls
    ('m_cache_lists_default', lambda em, e: em.expand('html>head>title^body>p>.k+input[checked title]', {'cache': e['C1']})),
    ('m_cache_lists_custom', lambda em, e: em.expand('html>head>title^body>p>.k+input[checked title]', {'cache': e['C1'], 'options': {
        'output.formatSkip': [], 'output.formatForce': ['title'], 'inlineElements': ['p'], 'output.booleanAttributes': ['title']}})),
]
OPNAMES = [o[0] for o in OPS]


def call(i, em, env):
    try:
        return ('ok', OPS[i][1](em, env))
    except Exception as e:
        return ('exc', type(e).__name__, getattr(e, 'message', str(e))[:60])


# ---------------------------------------------------------------- canonical state
def fp(o, depth=0, seen=None):
    "structural fingerprint of arbitrary (emmet) objects"
    if isinstance(o, (str, int, float, bool, type(None))):
        return o
    if depth > 14:
        return type(o).__name__
    if isinstance(o, (list, tuple)):
        return tuple(fp(x, depth + 1) for x in o)
    if isinstance(o, dict):
        return tuple((repr(k), fp(v, depth + 1)) for k, v in o.items())
    if isinstance(o, (set, frozenset)):
        return tuple(sorted(repr(x) for x in o))
    if callable(o):
        return 'callable'
    slots = []
    for c in type(o).__mro__:
        slots += list(getattr(c, '__slots__', ()))
    if not slots and hasattr(o, '__dict__'):
        slots = sorted(vars(o))
    out = [type(o).__name__]
    for s in slots:
        v = getattr(o, s, None)
        if s == 'dependencies':
            out.append((s, tuple(getattr(d, 'key', None) for d in v)))
        else:
            out.append((s, fp(v, depth + 1)))
    return tuple(out)


def module_state():
    "fingerprint of every module-level container, mutable function default and class attribute container in emmet.*"
    out = []
    for name in sorted(sys.modules):
        if name != 'emmet' and not name.startswith('emmet.'):
            continue
        m = sys.modules[name]
        for k in sorted(vars(m)):
            v = vars(m)[k]
            if k.startswith('__'):
                continue
            if isinstance(v, (dict, list, set)):
                out.append((name, k, fp(v)))
            elif isinstance(v, types.FunctionType) and v.__module__ == name:
                for i, d in enumerate(v.__defaults__ or ()):
                    if isinstance(d, (dict, list, set)):
                        out.append((name, k, 'default%d' % i, len(d), fp(d) if len(d) < 50 else None))
            elif isinstance(v, type) and v.__module__ == name:
                for ck, cv in vars(v).items():
                    if isinstance(cv, (dict, list, set)) and not ck.startswith('__'):
                        out.append((name, k, ck, fp(cv)))
    return tuple(out)


def module_sizes():
    sizes = {}
    for name in sorted(sys.modules):
        if name != 'emmet' and not name.startswith('emmet.'):
            continue
        m = sys.modules[name]
        for k, v in vars(m).items():
            if k.startswith('__'):
                continue
            if isinstance(v, (dict, list, set)):
                sizes[(name, k)] = len(v)
            elif isinstance(v, types.FunctionType) and v.__module__ == name:
                for i, d in enumerate(v.__defaults__ or ()):
                    if isinstance(d, (dict, list, set)):
                        sizes[(name, k, i)] = len(d)
    return sizes


def live_emmet_objects(env, frozen=False):
    """number of live instances of emmet classes that are not reachable from caller-owned objects or module globals.
    frozen=True: everything alive when the library was imported has been gc.freeze()d and is not scanned again, so only
    objects created since are counted and only caller-owned objects need to be traversed (objects stored into module-level
    containers show up in module_state())."""
    gc.collect()
    reach = set()
    stack = list(env.values())
    for name, m in sys.modules.items():
        if frozen:
            break
        if name == 'emmet' or name.startswith('emmet.'):
            stack.append(vars(m))
    while stack:
        o = stack.pop()
        if id(o) in reach:
            continue
        reach.add(id(o))
        if isinstance(o, (str, int, float, bool, type(None))):
            continue
        try:
            stack.extend(gc.get_referents(o))
        except Exception:
            pass
    n = 0
    for o in gc.get_objects():
        t = type(o)
        mod = getattr(t, '__module__', '') or ''
        if (mod == 'emmet' or mod.startswith('emmet.')) and id(o) not in reach and not isinstance(o, type):
            n += 1
    return n


def cfg_canon(d):
    "caller-owned config dict: a `text: None` entry equals absent; cache contents are fingerprinted separately"
    return tuple(sorted((k, repr(v)) for k, v in d.items() if not (k == 'text' and v is None) and k != 'cache'))


def canon(em, env, leak):
    o = env['O']
    return (
        ('A', cfg_canon(env['A'])), ('T', cfg_canon(env['T'])), ('B', cfg_canon(env['B'])),
        ('O', cfg_canon(o.user_config), o.type, o.syntax, repr(o.context), fp(o.snippets), fp(o.variables),
         tuple(sorted((k, repr(v)) for k, v in o.options.items() if not callable(v)))),
        ('C1', fp(env['C1'])), ('C2', fp(env['C2'])), ('G', repr(env['G'])), ('SO', fp(env['SO'].cache)),
        ('modules', module_state()),
        ('leak', leak > 0),
    )


def replay(hist):
    em = fresh()
    env = make_env(em)
    res = [call(i, em, env) for i in hist]
    return em, env, res


def replay_counting(hist):
    "like replay(), and counts the emmet objects that the calls left alive (everything older is frozen out of the scan)"
    gc.unfreeze()
    em = fresh()
    env = make_env(em)
    gc.collect()
    gc.freeze()
    res = [call(i, em, env) for i in hist]
    leak = live_emmet_objects(env, True)
    return em, env, res, leak


_FRESH = None
_BASE = None


def fresh_results():
    global _FRESH, _BASE
    if _FRESH is None:
        out = []
        for i in range(len(OPS)):
            em, env, res = replay([i])
            out.append(res[0])
        em, env, _ = replay([])
        _BASE = live_emmet_objects(env)
        _FRESH = out
    return _FRESH


def initial_config_ok(env):
    "caller-owned configuration objects must equal their initial value after every call"
    bad = []
    if cfg_canon(env['A']) != ():
        bad.append('A')
    if cfg_canon(env['T']) != cfg_canon(TEXT_CFG):
        bad.append('T')
    if cfg_canon(env['O'].user_config) != cfg_canon(TEXT_CFG):
        bad.append('O')
    if cfg_canon(env['B']) != cfg_canon({'options': {'bem.enabled': True}}):
        bad.append('B')
    if env['G'] != GLOBAL_CFG:
        bad.append('G')
    return bad


def examine(hist):
    """replays hist; -> (canonical state, list of violations for the last transition)"""
    FR = fresh_results()
    em, env, res, leak = replay_counting(hist)
    bad = []
    if hist:
        i = hist[-1]
        if res[-1] != FR[i]:
            bad.append(('history-dependent-result:%s' % OPNAMES[i], dict(history=[OPNAMES[j] for j in hist], got=res[-1], fresh=FR[i])))
        for name in initial_config_ok(env):
            bad.append(('caller-config-changed:%s' % name, dict(history=[OPNAMES[j] for j in hist])))
    return canon(em, env, leak), bad, leak


def leak_probe(i):
    "operation i repeated 4 times from the fresh state: strict growth at every repetition => leak"
    em = fresh()
    env = make_env(em)
    counts = []
    sizes = []
    bad = []
    for _ in range(4):
        r = call(i, em, env)
        if r[0] == 'exc' and r[1] == 'SelfCheck':
            bad.append(('self-check:%s' % OPNAMES[i], dict(result=r)))
            return bad
        counts.append(live_emmet_objects(env))
        sizes.append(module_sizes())
    if counts[0] < counts[1] < counts[2] < counts[3]:
        bad.append(('leak:objects-kept-alive:%s' % OPNAMES[i], dict(live_counts=counts)))
    for k in sizes[0]:
        s = [z.get(k, 0) for z in sizes]
        if s[0] < s[1] < s[2] < s[3]:
            bad.append(('leak:module-container-grows:%s' % '.'.join(str(x) for x in k), dict(op=OPNAMES[i], sizes=s)))
    return bad


# ---------------------------------------------------------------- fork-based exploration (live states are never copied, they are forked)
def fork_call(fn):
    "runs fn() in a forked child (which inherits the live library state) and returns its pickled result"
    import os, pickle
    r, w = os.pipe()
    pid = os.fork()
    if pid == 0:
        code = 0
        try:
            os.close(r)
            try:
                data = pickle.dumps(('ok', fn()))
            except BaseException as e:          # report harness errors to the parent
                import traceback
                data = pickle.dumps(('err', traceback.format_exc()))
            with os.fdopen(w, 'wb') as f:
                f.write(data)
        finally:
            os._exit(code)
    os.close(w)
    with os.fdopen(r, 'rb') as f:
        data = f.read()
    os.waitpid(pid, 0)
    kind, val = pickle.loads(data)
    if kind == 'err':
        raise RuntimeError('forked explorer failed:\n' + val)
    return val


def fork_map(fns, width=6):
    "like [fork_call(f) for f in fns] with up to `width` children running at the same time; results in order"
    import os, pickle
    results = [None] * len(fns)
    running = []

    def collect():
        idx, pid, fd = running.pop(0)
        with os.fdopen(fd, 'rb') as f:
            data = f.read()
        os.waitpid(pid, 0)
        kind, val = pickle.loads(data)
        if kind == 'err':
            raise RuntimeError('forked explorer failed:\n' + val)
        results[idx] = val
    for idx, fn in enumerate(fns):
        if len(running) >= width:
            collect()
        r, w = os.pipe()
        pid = os.fork()
        if pid == 0:
            try:
                os.close(r)
                for _i, _p, fd in running:
                    os.close(fd)
                try:
                    data = pickle.dumps(('ok', fn()))
                except BaseException:
                    import traceback
                    data = pickle.dumps(('err', traceback.format_exc()))
                with os.fdopen(w, 'wb') as f:
                    f.write(data)
            finally:
                os._exit(0)
        os.close(w)
        running.append((idx, pid, r))
    while running:
        collect()
    return results


def live_step(em, env, i, base):
    "applies operation i to the live state; -> (canonical state hash, result, changed caller configs, leak)"
    res = call(i, em, env)
    leak = live_emmet_objects(env, True) - base
    return hash(canon(em, env, leak)), res, initial_config_ok(env), leak


def from_state(em, env, hist, base):
    "runs in a forked child of the fresh state: replays hist on the live objects, then tries every operation in a grandchild"
    for i in hist:
        call(i, em, env)
    return fork_map([(lambda i=i: live_step(em, env, i, base)) for i in range(len(OPS))], 4)


def shards(tier):
    """quick: one global BFS from the fresh state (every (state, operation) transition once, to the fixpoint) plus, independent of
    the state abstraction, all histories of length 2 in parallel; thorough: additionally one BFS per first operation with
    abstraction validation."""
    out = [dict(globalbfs=True)] + [dict(pairs=i) for i in range(len(OPS))] + [dict(leak=i) for i in range(len(OPS))]
    if tier == 'thorough':
        out += [dict(first=i) for i in range(len(OPS))]
    return out


def run_shard(shard, ctx, tier):
    if 'leak' in shard:
        i = shard['leak']
        ctx.tick(('leak', i))
        ctx.evals += 4
        ctx.validated += 1
        ctx.transitions += 4
        for cls, d in leak_probe(i):
            ctx.violation(cls, dict(leak_probe=OPNAMES[i]), d)
        return
    if 'pairs' in shard:
        i = shard['pairs']
        for j in range(len(OPS)):
            h = [i, j]
            ctx.tick(h)
            k, bad, leak = examine(h)
            ctx.transitions += 1
            ctx.evals += 2
            ctx.validated += 1
            ctx.nontrivial += 1
            ctx.stateset.add(hash(k))
            ctx.outcome((j, bad == []))
            for cls, d in bad:
                ctx.violation(cls, dict(history=[OPNAMES[x] for x in h]), d)
        ctx.sample(dict(pairs_after=OPNAMES[i]))
        return
    depth = BOUNDS[tier]['depth']
    FR = fresh_results()
    seen = {}
    results_of = {}
    frontier = collections.deque()
    if shard.get('globalbfs'):
        # one breadth-first search from the fresh state over live states: the fresh state is held by this process and never
        # touched; a state is re-entered by forking and replaying its history on the live objects, every operation runs in a
        # grandchild.  Every (state, operation) transition is executed exactly once.
        em = fresh()
        env = make_env(em)
        gc.collect()
        gc.freeze()            # objects alive now are not rescanned by the leak counter
        base = live_emmet_objects(env, True)
        k0 = hash(canon(em, env, 0))
        seen_h = {k0: []}
        ctx.stateset.add(k0)
        frontier = collections.deque([[]])
        bound_hit = False
        maxd = 0
        ntrans = 0
        while frontier:
            level = list(frontier)
            frontier.clear()
            ctx.tick(level[0])
            # all states of one BFS level are expanded concurrently (each in its own forked child of the fresh state)
            all_steps = fork_map([(lambda h=h: from_state(em, env, h, base)) for h in level], 4)
            for hist, steps in zip(level, all_steps):
              for i, (hk, res, changed, leak) in enumerate(steps):
                  h = hist + [i]
                  names = [OPNAMES[j] for j in h]
                  ntrans += 1
                  ctx.transitions += 1
                  ctx.evals += 1
                  ctx.validated += 1
                  if len(h) >= 2:
                      ctx.nontrivial += 1
                  maxd = max(maxd, len(h))
                  ctx.outcome((i, res == FR[i]))
                  if res != FR[i]:
                      ctx.violation('history-dependent-result:%s' % names[-1], dict(history=names), dict(history=names, got=res, fresh=FR[i]))
                  for name in changed:
                      ctx.violation('caller-config-changed:%s' % name, dict(history=names), dict(history=names))
                  if leak > 0:
                      ctx.extra['transitions_with_live_garbage'] += 1
                  if hk not in seen_h:
                      seen_h[hk] = h
                      ctx.stateset.add(hk)
                      if len(h) < BOUNDS[tier]['global_depth']:
                          frontier.append(h)
                      else:
                          bound_hit = True
        gc.unfreeze()
        ctx.extra['global_search_stopped_at_depth_bound' if bound_hit else 'global_search_fixpoint_reached'] += 1
        ctx.extra['global_search_max_depth'] = maxd
        ctx.sample(dict(search='global BFS over forked live states', states=len(seen_h), transitions=ntrans,
                        deepest_new_state=[OPNAMES[j] for j in list(seen_h.values())[-1]]))
        return
    if False:
        pass
    else:
        first = shard['first']
        h0 = [first]
    ctx.tick(h0)
    k0, bad, leak = examine(h0)
    ctx.transitions += 1
    ctx.evals += 1
    ctx.validated += 1
    for cls, d in bad:
        ctx.violation(cls, dict(history=[OPNAMES[j] for j in h0]), d)
    seen[k0] = h0
    ctx.stateset.add(hash(k0))
    frontier.append(h0)
    complete = True
    maxd = 1
    while frontier:
        hist = frontier.popleft()
        if len(hist) >= depth:
            complete = False
            continue
        for i in range(len(OPS)):
            h = hist + [i]
            ctx.tick(h)
            k, bad, leak = examine(h)
            ctx.transitions += 1
            ctx.evals += len(h)
            ctx.validated += 1
            ctx.nontrivial += 1
            maxd = max(maxd, len(h))
            ctx.outcome((i, bad == []))
            for cls, d in bad:
                ctx.violation(cls, dict(history=[OPNAMES[j] for j in h]), d)
            if leak > 0:
                ctx.extra['transitions_with_live_garbage'] += 1
            if k not in seen:
                seen[k] = h
                ctx.stateset.add(hash(k))
                frontier.append(h)
            elif len(h) <= 2 and tier == 'thorough' and first is not None:
                # abstraction validation: h reached a known state by another path; all operations must behave alike
                rep = seen[k]
                for j in range((h[0] + h[-1]) % 4, len(OPS), 4):          # every fourth operation, the offset rotating with the history
                    ra = replay(h + [j])[2][-1]
                    rb = replay(rep + [j])[2][-1]
                    ctx.evals += len(h) + len(rep) + 2
                    ctx.extra['abstraction_probes'] += 1
                    if ra != rb:
                        raise AssertionError('state abstraction too coarse: %s and %s merged but %s differs' % (
                            [OPNAMES[x] for x in h], [OPNAMES[x] for x in rep], OPNAMES[j]))
    ctx.extra['bfs_fixpoint_reached' if complete else 'bfs_stopped_at_depth_bound'] += 1
    ctx.extra['max_depth_%d' % maxd] += 1
    ctx.sample(dict(first=OPNAMES[first] if first is not None else '(global BFS from the fresh state)', states=len(seen),
                    example_history=[OPNAMES[j] for j in list(seen.values())[-1]]))


def check_case(case):
    if 'leak_probe' in case:
        return leak_probe(OPNAMES.index(case['leak_probe']))
    hist = [OPNAMES.index(n) for n in case['history']]
    _, bad, _ = examine(hist)
    return bad


def repro(case):
    if 'leak_probe' in case:
        return '# repeat operation %s four times and count live emmet objects (see mc/props/c08.py leak_probe)\n' % case['leak_probe']
    return '# replay in a fresh interpreter: %s ; the last call must give the same result as when it is the first call\n' % case['history']
