"""C12  Formatting options are cosmetic and indentation equals nesting depth.

E2 x E4: abbreviation derivations (C01 model) over a menu of element kinds x all option sets at <= 2 deviations over the
formatting options x the syntaxes rendered by the HTML formatter.  Oracles: (i) differential against the unformatted
baseline through the independent lexer (same tags, attributes, text, order); (ii) indentation = baseIndent + indent x
number of open elements; (iii) comments only add comment tokens right after / before the commented element; (iv) the
self-closing style only changes ` /` or `/` before `>`.
"""
import re, itertools
from emmet import expand, markup_abbreviation, stringify_markup
from mc import session
from emmet.config import Config
from mc import explore
from mc.lexers import lex_html
from mc.ref import abbr_model as M

ID = 'C12'

# kind -> (void, comment-trigger text or None)
KINDS = {
    'div': (False, None), 'section#s.k': (False, '#s.k'), 'span': (False, None), 'em{u v}': (False, None), 'p{t}': (False, None),
    '#i1': (False, '#i1'), '.c1': (False, '.c1'), 'br/': (True, None), 'img': (True, None), 'ul': (False, None),
    'span.c2{w}': (False, '.c2'), 'li': (False, None), 'p{l1\nl2}': (False, None),
    'p{l1\rl2}': (False, None),          # text lines separated by a lone CR are lines too
    'p{\nl2}': (False, None),             # text that opens with its only line break
    'p{l1\nl2\nl3}': (False, None),       # three lines: the second line break of a text is a line break too
    '{n: ${0}}': (False, None), 'em{i ${0}}': (False, None),      # text that ends with the field its children replace
    'x[id]': (False, ''), 'x[class=""]': (False, ''),            # a comment trigger without a value: a comment with an empty payload
    'html': (False, None),                                         # in the default output.formatSkip list
    'tm': (False, None), 'bod': (False, None),                     # substrings of `html` / `body`: not exempted, not forced
    'td[width=1 hidden]': (False, None), 'x[data-id=3]': (False, None),      # attribute names that merely contain `id` / `class`: no comment
    # text-only nodes whose children are written in place of the first field (clause (i) only)
    '{a ${0} b}': (False, None), '{[${0}${1:f}]}': (False, None),
}
XSL_KINDS = {
    'xsl:variable[name=n select=s]': (False, None), 'xsl:with-param[name=n select=s]': (False, None), 'var': (False, None),
    'wp': (False, None), 'div': (False, None), 'p{t}': (False, None), '.c1': (False, '.c1'), 'br/': (True, None),
}
ALL = dict(KINDS)
ALL.update(XSL_KINDS)
OPTION_SPACE = {
    'output.format': [True, False],
    'output.indent': ['\t', '  '],
    'output.newline': ['\n', '\r\n'],
    'output.baseIndent': ['', '  '],
    'output.inlineBreak': [3, 0, 1],
    'output.formatLeafNode': [False, True],
    'output.formatSkip': [['html'], ['div'], []],
    'output.formatForce': [['body'], ['div']],
    'comment': ['off', 'after', 'before'],
    'output.selfClosingStyle': [None, 'html', 'xhtml', 'xml'],
}
SYNTAXES = ['html', 'xml', 'xsl', 'jsx', 'vue', 'svelte']
BOUNDS = {
    # sweeps: (elements, group depth, kinds used, deviations, syntaxes)
    'quick': dict(sweeps=[(2, 0, 'all', 2, ['html', 'xsl']), (2, 1, 'core', 1, SYNTAXES), (3, 0, 'core', 1, ['html']),
                          (3, 1, 'tiny', 1, ['html', 'xsl'])]),
    'thorough': dict(sweeps=[(2, 1, 'all', 2, SYNTAXES), (3, 0, 'core', 2, ['html', 'xsl']), (3, 1, 'small', 1, SYNTAXES),
                             (4, 0, 'small', 1, ['html', 'xsl'])]),
}
KSETS = {
    'all': list(KINDS),
    'core': ['div', 'section#s.k', 'span', 'em{u v}', 'p{t}', '.c1', 'br/', 'img'],
    'small': ['div', 'span', 'p{t}', '.c1', 'br/'],
    'tiny': ['div', 'span', 'p{t}'],
}
XSETS = {
    'all': list(XSL_KINDS),
    'core': list(XSL_KINDS),
    'small': ['xsl:variable[name=n select=s]', 'wp', 'div', '.c1', 'br/'],
    'tiny': ['wp', 'div', '.c1'],
}
NSH = 48


def describe(tier):
    b = BOUNDS[tier]
    return dict(
        rule='E2xE4: operator skeletons (no repeaters) with (elements, group depth) bounds x element kinds %s (xsl syntax: %s) x all '
             'option sets with <= d deviations over %s x syntaxes: (n, groups, kind set, d, syntaxes) in %s. '
             'Attribute-forms sweep: elements carrying each (pair) of the forms %s, in every syntax, under every option set with <= 1 '
             'deviation, and the same parsed tree formatted twice; the calls of a shard share one cache dict and the option sets are visited in an order that rotates from shard to shard. Transition = one production / one option toggle.' % (
                 list(KINDS), list(XSL_KINDS), list(OPTION_SPACE), b['sweeps'], ATTR_FORMS),
        nontrivial='at least one option deviates from the default (two outputs are compared).',
        bounds=b,
        assumptions=['text-only nodes with children, elements listed in formatSkip (indent clause), whitespace-only lines (e.g. the blank '
                     'line after multi-line text that is followed by children) and compactBoolean are left unspecified',
                     'bem.enabled is not in the lattice (BEM rewrites class values by design)'],
        explanation='Every case is expanded twice by emmet.expand (option set vs unformatted baseline) and both outputs are read by the '
                    'independent lexer.',
    )


def shards(tier):
    out = []
    for si, sw in enumerate(BOUNDS[tier]['sweeps']):
        for k in range(NSH):
            out.append(dict(sweep=si, k=k, of=NSH))
    for syntax in SYNTAXES:
        out.append(dict(sweep='attrs', syntax=syntax))
    return out


# attribute forms sweep: the formatter writes every kind of attribute (mapped names, value prefixes, booleans, expressions) the
# same way whatever the cosmetic options, and formatting the same parsed tree again gives the same text
ATTR_FORMS = ['..m1', '.c1', '#i1', '[t=v]', '[t="q v"]', '[d.]', '[e={x}]', '[disabled]', '..m1..m2', '[class=k]..m1', '[for=f]']


def attr_abbrs():
    for f in ATTR_FORMS:
        yield 'div' + f
        yield 'ul%s>li%s*2>span%s' % (f, f, f)
        yield 'p%s{t}+br%s/' % (f, f)
        for g in ATTR_FORMS:
            if g != f:
                yield 'div' + f + g


def check_attr(abbr, syntax, opts):
    bad = check_reuse(abbr, syntax)
    if bad:
        return bad
    ro = real_options(opts)
    try:
        out = expand(abbr, {'syntax': syntax, 'options': ro})
        base = baseline(abbr, syntax)
    except Exception as e:
        return [('exception:%s' % type(e).__name__, str(e)[:120])]
    got = norm_events(lex_html(out))
    if got != base:
        return [(classify_content(base, got, opts), dict(abbr=abbr, options=ro, syntax=syntax, output=out[:300], baseline=base[:30], got=got[:30]))]
    return []


def run_attrs(shard, ctx):
    syntax = shard['syntax']
    osets = [o for o in explore.deviations(OPTION_SPACE, 1) if 'comment' not in o]
    for abbr in attr_abbrs():
        for opts in osets:
            ctx.tick((abbr, opts))
            ctx.states += 1
            ctx.transitions += 1
            ctx.evals += 4
            ctx.validated += 1
            if opts:
                ctx.nontrivial += 1
            for cls, dd in check_attr(abbr, syntax, opts):
                ctx.violation(cls, dict(attr_abbr=abbr, syntax=syntax, options=opts), dd)
        ctx.outcome(('attrs', syntax))
    ctx.sample(dict(abbr=abbr, syntax=syntax))


def real_options(opts):
    o = {}
    for k, v in opts.items():
        if k == 'comment':
            if v == 'after':
                o['comment.enabled'] = True
            elif v == 'before':
                o['comment.enabled'] = True
                o['comment.before'] = '<!-- [#ID][.CLASS] -->'
                o['comment.after'] = ''
        elif v is not None:
            o[k] = v
    return o


def norm_events(ev):
    out = []
    for e in ev:
        if e[0] == 'comment':
            continue
        if e[0] == 't':
            t = ''.join(e[1].split())
            if t:
                out.append(('t', t))
        elif e[0] == 'o':
            out.append(('o', e[1], e[2]))
        else:
            out.append(e)
    return out


_BASE = {}


def baseline(abbr, syntax):
    k = (abbr, syntax)
    r = _BASE.get(k)
    if r is None:
        if len(_BASE) > 20000:
            _BASE.clear()
        out = expand(abbr, {'syntax': syntax, 'options': {'output.format': False}})
        r = _BASE[k] = norm_events(lex_html(out))
    return r


def elements_preorder(tree, out=None):
    "[(kind, has_children)] in document order"
    if out is None:
        out = []
    for label, ch, _ in tree:
        out.append((label, bool(ch)))
        elements_preorder(ch, out)
    return out


def check(seq, labels, syntax, opts):
    """-> list of (class, detail)"""
    abbr = M.render(seq, labels)
    ro = real_options(opts)
    try:
        # the calls of one shard share one `cache` dict, as an editor session does: whatever a call leaves in it must not
        # make a later call with other formatting options behave differently (a violation that needs the earlier calls is
        # found again by the runner's shard replay)
        out = expand(abbr, {'syntax': syntax, 'options': ro, 'cache': session.CACHE})
    except Exception as e:
        return abbr, [('exception:%s' % type(e).__name__, str(e)[:120])]
    bad = []
    spans = []
    ev = lex_html(out, spans)
    # (i) cosmetic
    try:
        base = baseline(abbr, syntax)
    except Exception as e:
        return abbr, [('exception-baseline:%s' % type(e).__name__, str(e)[:120])]
    got = norm_events(ev)
    if got != base:
        bad.append((classify_content(base, got, opts), dict(abbr=abbr, options=ro, syntax=syntax, output=out[:300], baseline=base[:30], got=got[:30])))
        return abbr, bad
    tree = M.unroll(M.denote(seq, labels))
    els = [(k, c) for k, c in elements_preorder(tree)]
    if any(k.startswith('{') for k, _ in els):
        # text-only nodes are not elements: drop them from the element list used by (iii); clause (ii) is skipped below
        if opts.get('comment', 'off') != 'off':
            return abbr, bad
    # (iii) comments
    cm = opts.get('comment', 'off')
    comments = [i for i, e in enumerate(ev) if e[0] == 'comment']
    if cm == 'off':
        if comments:
            bad.append(('comment:present-although-disabled', dict(abbr=abbr, output=out[:300])))
    else:
        want = [ALL[k][1] for k, _ in els if ALL[k][1] is not None]
        if len(comments) != len(want):
            bad.append(('comment:count', dict(abbr=abbr, expected=len(want), got=len(comments), output=out[:300])))
        else:
            sig = [e for e in ev if not (e[0] == 't' and not e[1].strip())]
            stack = []
            k = -1
            opened = []
            for idx, e in enumerate(sig):
                if e[0] == 'o':
                    k += 1
                    kind, has_ch = els[k] if k < len(els) else (None, False)
                    void = kind is not None and ALL[kind][0] and not has_ch
                    if cm == 'before' and kind is not None and ALL[kind][1] is not None:
                        prev = sig[idx - 1] if idx else None
                        if not prev or prev[0] != 'comment' or ' '.join(prev[1].split()) != ' '.join(('<!-- %s -->' % ALL[kind][1]).split()):
                            bad.append(('comment:not-before-its-element', dict(abbr=abbr, element=kind, output=out[:300])))
                    if not void:
                        stack.append(kind)
                elif e[0] == 'c':
                    kind = stack.pop() if stack else None
                    if cm == 'after' and kind is not None and ALL[kind][1] is not None:
                        nxt = sig[idx + 1] if idx + 1 < len(sig) else None
                        if not nxt or nxt[0] != 'comment' or nxt[1].strip() != '<!-- /%s -->' % ALL[kind][1]:
                            bad.append(('comment:not-after-its-element', dict(abbr=abbr, element=kind, output=out[:300])))
    # (ii) indentation (not for abbreviations with text-only nodes: the rule speaks of elements)
    if any(k.startswith('{') for k, _ in els):
        return abbr, bad
    fmt = opts.get('output.format', True)
    skip = opts.get('output.formatSkip', ['html'])
    names_skipped = any(e[0] == 'o' and e[1].lower() in skip for e in ev)
    if fmt and not names_skipped:
        nl = opts.get('output.newline', '\n')
        ind = opts.get('output.indent', '\t')
        base_ind = opts.get('output.baseIndent', '')
        # depth changes: +1 at the end of an open tag of a non-void element, -1 at the end of a close tag
        changes = []
        k = -1
        for e, (a, b) in zip(ev, spans):
            if e[0] == 'o':
                k += 1
                kind, has_ch = els[k] if k < len(els) else (None, False)
                void = kind is not None and ALL[kind][0] and not has_ch
                if not void:
                    changes.append((b, 1))
            elif e[0] == 'c':
                changes.append((b, -1))
        first = True
        starts = [0] + [m_.end() for m_ in re.finditer(r'\r\n|\n|\r', out)]
        ends = [m_.start() for m_ in re.finditer(r'\r\n|\n|\r', out)] + [len(out)]
        for pos, line_end in zip(starts, ends):
            line = out[pos:line_end]
            if not first and line.strip():      # whitespace-only lines carry no tag or text: left unspecified
                d = sum(c for off, c in changes if off <= pos)
                rest = line.lstrip(' \t')
                if rest.startswith('</'):
                    d -= 1
                want = base_ind + ind * max(d, 0)
                if not (line.startswith(want) and not line[len(want):len(want) + 1].isspace()):
                    bad.append(('indent:line-not-at-nesting-depth', dict(abbr=abbr, options=ro, line=line, expected_indent=want,
                                                                         depth=d, output=out[:300])))
                    break
            first = False
    return abbr, bad


def classify_content(base, got, opts):
    bt = [e for e in base if e[0] != 't']
    gt = [e for e in got if e[0] != 't']
    if [(e[0], e[1]) for e in bt] != [(e[0], e[1]) for e in gt]:
        return 'content:tags-differ'
    if bt != gt:
        return 'content:attributes-differ'
    return 'content:text-differs'


def check_reuse(abbr, syntax):
    "the same parsed tree formatted twice (also with comments on) gives the text expand() gives"
    bad = []
    for o in ({}, {'comment.enabled': True}):
        try:
            cfg = Config({'syntax': syntax, 'options': dict(o)})
            t = markup_abbreviation(abbr, cfg)
            first = stringify_markup(t, cfg)
            second = stringify_markup(t, cfg)
            ref = expand(abbr, {'syntax': syntax, 'options': dict(o)})
        except Exception as e:
            return [('exception-reformat:%s' % type(e).__name__, str(e)[:120])]
        if not (first == second == ref):
            bad.append(('formatter-consumes-the-tree', dict(abbr=abbr, syntax=syntax, options=o, first=first[:200], second=second[:200])))
    return bad


def check_style(seq, labels, syntax):
    abbr = M.render(seq, labels)
    outs = []
    bad0 = check_reuse(abbr, syntax)
    if bad0:
        return abbr, bad0
    for st in ('html', 'xhtml', 'xml'):
        try:
            outs.append(re.sub(r' ?/>', '>', expand(abbr, {'syntax': syntax, 'options': {'output.selfClosingStyle': st}})))
        except Exception as e:
            return abbr, [('exception:%s' % type(e).__name__, str(e)[:120])]
    if not (outs[0] == outs[1] == outs[2]):
        return abbr, [('self-closing-style:changes-more-than-the-slash', dict(abbr=abbr, outputs=outs))]
    return abbr, []


def cases(tier, si):
    n, g, kset, d, syns = BOUNDS[tier]['sweeps'][si]
    osets = list(explore.deviations(OPTION_SPACE, d))
    for m in range(1, n + 1):
        for seq, _ in M.gen_seqs(m, g, 0):
            yield m, seq, kset, osets, syns


def run_shard(shard, ctx, tier):
    if shard['sweep'] == 'attrs':
        return run_attrs(shard, ctx)
    si, k, of = shard['sweep'], shard['k'], shard['of']
    abbr = None
    idx = -1
    for m, seq, kset, osets, syns in cases(tier, si):
        for syntax in syns:
            kinds = XSETS[kset] if syntax == 'xsl' else KSETS[kset]
            for labels in itertools.product(kinds, repeat=m):
                idx += 1
                if idx % of != k:
                    continue
                labels = list(labels)
                ctx.tick((seq, labels, syntax))
                abbr, bad = check_style(seq, labels, syntax)
                ctx.states += 1
                ctx.evals += 3
                ctx.validated += 1
                for cls, dd in bad:
                    ctx.violation(cls, dict(seq=seq, labels=labels, syntax=syntax, options={'style-triple': True}), dd)
                rot = k % len(osets)        # which option set meets the fresh session cache first differs from shard to shard
                for opts in osets[rot:] + osets[:rot]:
                    ctx.states += 1
                    ctx.transitions += 1
                    ctx.evals += 1
                    ctx.validated += 1
                    if opts:
                        ctx.nontrivial += 1
                    abbr, bad = check(seq, labels, syntax, opts)
                    for cls, dd in bad:
                        ctx.violation(cls, dict(seq=seq, labels=labels, syntax=syntax, options=opts), dd)
                ctx.outcome((m, syntax, tuple(sorted(set(labels)))))
    if abbr:
        ctx.sample(dict(abbr=abbr))


def _tuplify(seq):
    out = []
    for item, op in seq:
        if item[0] == 'E':
            out.append((('E', item[1]), op))
        else:
            out.append((('G', _tuplify(item[1]), item[2]), op))
    return out


def check_case(case):
    if 'attr_abbr' in case:
        return check_attr(case['attr_abbr'], case['syntax'], case['options'])
    seq = _tuplify(case['seq'])
    if case['options'].get('style-triple'):
        return check_style(seq, case['labels'], case['syntax'])[1]
    return check(seq, case['labels'], case['syntax'], case['options'])[1]


def repro(case):
    if 'attr_abbr' in case:
        return 'from emmet import expand\nprint(expand(%r, {"syntax": %r, "options": %r}))\n' % (case['attr_abbr'], case['syntax'], real_options(case['options']))
    seq = _tuplify(case['seq'])
    abbr = M.render(seq, case['labels'])
    return 'from emmet import expand\nprint(expand(%r, {"syntax": %r, "options": %r}))\nprint(expand(%r, {"syntax": %r, "options": {"output.format": False}}))\n' % (
        abbr, case['syntax'], real_options(case['options']) if not case['options'].get('style-triple') else {}, abbr, case['syntax'])
