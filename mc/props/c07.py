"""C07  expand fails only with its parse errors, never with an internal error.

E1 typing trees over the markup / stylesheet alphabets and token-level units, E3 edit neighbourhoods of valid
abbreviations, crossed with the configuration list K (every syntax, every single option deviation, every pair of
deviations at a smaller bound).  Oracle: returns str, or raises ScannerException / TokenScannerException whose
position is None or inside the input; the watchdog decides "terminates".
"""
import copy, random, traceback, itertools
from emmet import expand
from emmet.scanner import ScannerException
from emmet.token_scanner import TokenScannerException
from mc import explore
from mc.alphabets import SIGMA_M, SIGMA_S, UNITS_M, UNITS_S, SEEDS_M, SEEDS_S

ID = 'C07'

MARKUP_SYNTAXES = ['html', 'xml', 'xsl', 'jsx', 'pug', 'slim', 'haml', 'vue', 'svelte']
STYLE_SYNTAXES = ['css', 'scss', 'sass', 'less', 'sss', 'stylus']

# single deviations from the default configuration (markup)
DEV_M = {
    'text-str': {'text': 'T x'},
    'text-list': {'text': ['a', ' b c ', '']},
    'text-empty-list': {'text': []},
    'text-blank-lines': {'text': ['  ', '']},
    'text-empty-str': {'text': ''},
    'bem': {'options': {'bem.enabled': True}},
    'comment': {'options': {'comment.enabled': True}},
    'comment-before': {'options': {'comment.enabled': True, 'comment.before': '<!-- [#ID] -->'}},
    'jsx': {'options': {'jsx.enabled': True}},
    'maxRepeat2': {'maxRepeat': 2},
    'context-ul': {'context': {'name': 'ul'}},
    # BEM with a context element that supplies no block / that supplies one
    'bem-context': {'options': {'bem.enabled': True}, 'context': {'name': 'div'}},
    'bem-context-block': {'options': {'bem.enabled': True}, 'context': {'name': 'div', 'attributes': {'class': 'blk blk_m'}}},
    'noformat': {'options': {'output.format': False}},
    'leaf': {'options': {'output.formatLeafNode': True, 'output.inlineBreak': 1}},
    'compact-reverse': {'options': {'output.compactBoolean': True, 'output.reverseAttributes': True,
                                    'output.attributeQuotes': 'single', 'output.selfClosingStyle': 'xhtml'}},
    'nohref': {'options': {'markup.href': False}},
    'case': {'options': {'output.tagCase': 'upper', 'output.attributeCase': 'upper'}},
}
DEV_S = {
    'section': {'context': {'name': '@@section'}},
    'property': {'context': {'name': '@@property'}},
    'value': {'context': {'name': '@@value'}},
    'global': {'context': {'name': '@@global'}},
    'align-content': {'context': {'name': 'align-content'}},
    'json': {'options': {'stylesheet.json': True}},
    'longhex': {'options': {'stylesheet.shortHex': False}},
    'minscore': {'options': {'stylesheet.fuzzySearchMinScore': 0.3}},
    'keepUnmatched': {'options': {'stylesheet.skipUnmatched': False}},
    'noformat': {'options': {'output.format': False}},
    'units': {'options': {'stylesheet.intUnit': 'pt', 'stylesheet.floatUnit': 'rem', 'stylesheet.unitless': []}},
}


def _merge(*cfgs):
    out = {}
    for c in cfgs:
        for k, v in c.items():
            if k == 'options':
                out.setdefault('options', {}).update(v)
            else:
                out[k] = v
    return out


def config_list():
    "the list K: name -> config"
    K = {}
    K['m:html'] = {}
    for s in MARKUP_SYNTAXES[1:]:
        K['m:' + s] = {'syntax': s}
    for n, d in DEV_M.items():
        K['m:html+' + n] = d
    for s in STYLE_SYNTAXES:
        K['s:' + s] = {'type': 'stylesheet', 'syntax': s}
    for n, d in DEV_S.items():
        K['s:css+' + n] = _merge({'type': 'stylesheet'}, d)
    return K


def pair_list():
    P = {}
    for (a, da), (b, db) in itertools.combinations(DEV_M.items(), 2):
        if 'text' in da and 'text' in db:
            continue
        P['m:html+%s+%s' % (a, b)] = _merge(da, db)
    for s in ('pug', 'haml', 'slim', 'jsx', 'xsl'):
        for n in ('text-list', 'text-empty-list', 'bem', 'comment', 'maxRepeat2'):
            P['m:%s+%s' % (s, n)] = _merge({'syntax': s}, DEV_M[n])
    for (a, da), (b, db) in itertools.combinations(DEV_S.items(), 2):
        if 'context' in da and 'context' in db:
            continue
        P['s:css+%s+%s' % (a, b)] = _merge({'type': 'stylesheet'}, da, db)
    for s in ('sass', 'stylus'):
        for n in ('json', 'value', 'section'):
            P['s:%s+%s' % (s, n)] = _merge({'type': 'stylesheet', 'syntax': s}, DEV_S[n])
    return P


DEEP_STYLE_CONFIGS = ('s:css', 's:stylus', 's:css+section', 's:css+property', 's:css+value', 's:css+align-content', 's:css+json')
K = config_list()
P = pair_list()
ALLCFG = dict(K)
ALLCFG.update(P)

BOUNDS = {
    # chars_k: every config of K; chars_default: default markup config; pairs: every pair of deviations
    'quick': dict(chars_default=4, chars_k=3, pairs=2, units=3, units_k=2, s_chars=2, s_chars_cached=3, s_units=2,
                  s_units_cached=3, s_pairs=1, radius=1, seeds=40),
    'thorough': dict(chars_default=5, chars_k=4, pairs=3, units=4, units_k=3, s_chars=3, s_chars_cached=4, s_units=2,
                     s_units_cached=4, s_pairs=2, radius=2, seeds=16),
}


def describe(tier):
    b = BOUNDS[tier]
    return dict(
        rule='E1 x configuration list: markup alphabet (%d symbols) all strings with <= %d symbols under the default '
             'configuration, <= %d under each of the %d markup configurations of K (9 syntaxes + %d single deviations), '
             '<= %d under each of the %d pairs of deviations; <= %d token-level units (default) / <= %d (K). Stylesheet '
             'alphabet (%d symbols): <= %d symbols and <= %d units under each of the %d stylesheet configurations without '
             'cache, up to <= %d symbols / <= %d units cache-assisted (units at the deepest bound for %s, one less elsewhere; fresh cache per '
             'shard, failures re-run without cache and reported in either case), one table session per stylesheet configuration (every built-in key, alone / with numbers / with the initial of each keyword, through one cache), pairs at '
             '<= %d. E3: edit distance <= %d around %d markup and %d stylesheet seeds. State = (string, configuration); '
             'transition = one appended symbol / unit / edit.' % (
                 len(SIGMA_M), b['chars_default'], b['chars_k'], sum(1 for k in K if k.startswith('m:')), len(DEV_M),
                 b['pairs'], sum(1 for k in P if k.startswith('m:')), b['units'], b['units_k'], len(SIGMA_S), b['s_chars'],
                 b['s_units'], sum(1 for k in K if k.startswith('s:')), b['s_chars_cached'], b['s_units_cached'],
                 list(DEEP_STYLE_CONFIGS), b['s_pairs'], b['radius'],
                 len(SEEDS_M[:b['seeds']]), len(SEEDS_S[:b['seeds']])),
        nontrivial='expand returned a string (the whole pipeline ran: tokenizer, parser, converter, resolvers, formatter).',
        bounds=b,
        assumptions=['configurations are well-typed (contexts have a name, options have their documented types)',
                     'cache-assisted sweeps assume a cache cannot hide an internal error (C08 checks cache neutrality)',
                     'lorem uses random: seeded before each call; results are only classified, never compared'],
        explanation='Direct exploration of emmet.expand; every execution is classified as str / parse error with position '
                    'inside the input / anything else (violation, keyed by the innermost emmet frame).',
        case_time_limit=5.0 if tier == 'quick' else 20.0,
    )


def shards(tier):
    b = BOUNDS[tier]
    out = []
    for sh in explore.strings_shards(SIGMA_M, b['chars_default']):
        out.append(dict(cfg='m:html', alpha='M', **sh))
    for sh in explore.strings_shards(UNITS_M, b['units'], 2 if b['units'] >= 4 else 1):
        out.append(dict(cfg='m:html', alpha='UM', **sh))
    for name in K:
        if name.startswith('m:'):
            if name != 'm:html':
                for sh in explore.strings_shards(SIGMA_M, b['chars_k'], 1):
                    out.append(dict(cfg=name, alpha='M', **sh))
                for sh in explore.strings_shards(UNITS_M, b['units_k'], 1):
                    out.append(dict(cfg=name, alpha='UM', **sh))
        else:
            for sh in explore.strings_shards(SIGMA_S, b['s_chars'], 1):
                out.append(dict(cfg=name, alpha='S', **sh))
            # without cache every call converts the whole snippet table (7 ms): the full unit bound only for the deep configurations
            su = b['s_units'] if name in DEEP_STYLE_CONFIGS else b['s_units'] - 1
            for sh in explore.strings_shards(UNITS_S, su, 1):
                out.append(dict(cfg=name, alpha='US', **sh))
            for sh in explore.strings_shards(SIGMA_S, b['s_chars_cached'], 1):
                if not sh.get('short'):
                    out.append(dict(cfg=name, alpha='S', cached=True, minlen=b['s_chars'] + 1, **sh))
            # the deepest unit sweep only for the configurations that change how an abbreviation is parsed or resolved
            deep = name in DEEP_STYLE_CONFIGS
            for sh in explore.strings_shards(UNITS_S, b['s_units_cached'] if deep else b['s_units_cached'] - 1, 1):
                if not sh.get('short'):
                    out.append(dict(cfg=name, alpha='US', cached=True, minlen=su + 1, **sh))
    for name in P:
        if name.startswith('m:'):
            for sh in explore.strings_shards(SIGMA_M, b['pairs'], 1):
                out.append(dict(cfg=name, alpha='M', **sh))
            for sh in explore.strings_shards(UNITS_M, max(1, b['pairs'] - 1), 1):
                out.append(dict(cfg=name, alpha='UM', **sh))
        else:
            out.append(dict(cfg=name, alpha='US', short=True, maxlen=b['s_pairs']))
            out.append(dict(cfg=name, alpha='S', short=True, maxlen=b['s_pairs']))
    for s in SEEDS_M[:b['seeds']]:
        for name in ('m:html', 'm:html+text-list', 'm:jsx', 'm:pug', 'm:html+bem'):
            out.append(dict(cfg=name, nbh=s, radius=b['radius'] if name == 'm:html' else 1))
    for s in SEEDS_S[:b['seeds']]:
        out.append(dict(cfg='s:css', nbh=s, radius=1, cached=True, minlen=0))
    # one editor session per stylesheet configuration: every key of the built-in table, alone, with a number and with the initial
    # of each of its keywords, all through ONE cache dict (neighbouring keys of one CSS property meet in it)
    for name in K:
        if name.startswith('s:'):
            out.append(dict(cfg=name, table=True, cached=True))
    return out


def table_session(cfg):
    from emmet.config import Config
    table = Config(copy.deepcopy(cfg)).snippets
    # keyword initials per CSS property, collected over all the keys of that property: a key is also probed with the
    # initials of its siblings' keywords (`ff:s`, then `ffa:s`)
    initials = {}
    for key, body in table.items():
        if isinstance(body, str) and ':' in body and not body.lstrip().startswith('@'):
            prop, values = body.split(':', 1)
            for kw in values.split('|'):
                kw = kw.strip()
                if kw[:1].isalpha():
                    initials.setdefault(prop.strip(), {}).setdefault(kw[0].lower(), kw[:2].lower())
    for key in sorted(table):
        body = table[key]
        yield key
        yield key + '10'
        yield key + '-.5'
        if isinstance(body, str) and ':' in body and not body.lstrip().startswith('@'):
            for c, two in sorted(initials.get(body.split(':', 1)[0].strip(), {}).items()):
                yield key + ':' + c
                yield key + '-' + two


ALPHA = {'M': SIGMA_M, 'UM': UNITS_M, 'S': SIGMA_S, 'US': UNITS_S}


def sig(e):
    tb = traceback.extract_tb(e.__traceback__)
    fr = [f for f in tb if '/emmet/' in f.filename.replace('\\', '/')]
    f = fr[-1] if fr else tb[-1]
    fn = f.filename.replace('\\', '/')
    fn = fn[fn.rfind('/emmet/') + 1:] if '/emmet/' in fn else fn.rsplit('/', 1)[-1]
    return 'exc:%s@%s:%s' % (type(e).__name__, fn, f.name)


def run_one(w, cfg):
    """-> (kind, violation or None); kind in str / scan-error / token-error"""
    if 'orem' in w:
        random.seed(0)
    try:
        r = expand(w, cfg)
    except ScannerException as e:
        if e.pos is not None and not (isinstance(e.pos, int) and 0 <= e.pos <= len(w)):
            return 'scan-error', ('scan-error-pos-outside-input', dict(pos=e.pos, len=len(w)))
        return 'scan-error', None
    except TokenScannerException as e:
        if e.pos is not None and not (isinstance(e.pos, int) and 0 <= e.pos <= len(w)):
            return 'token-error', ('token-error-pos-outside-input', dict(pos=e.pos, len=len(w)))
        return 'token-error', None
    except RecursionError as e:
        return 'exc', ('exc:RecursionError', '')
    except Exception as e:
        return 'exc', (sig(e), str(e)[:200])
    if not isinstance(r, str):
        return 'nonstr', ('returned-non-string:%s' % type(r).__name__, repr(r)[:100])
    return 'str', None


def run_shard(shard, ctx, tier):
    name = shard['cfg']
    base = ALLCFG[name]
    cached = shard.get('cached')
    cache = {} if cached else None
    if shard.get('table'):
        gen = table_session(base)
    elif 'nbh' in shard:
        alpha = SIGMA_M if name.startswith('m:') else SIGMA_S
        gen = explore.neighbourhood(shard['nbh'], alpha, shard['radius'])
    else:
        gen = (''.join(t) for t in explore.strings_of_shard(ALPHA[shard['alpha']], shard)
               if not cached or len(t) >= shard['minlen'])
    w = None
    for w in gen:
        ctx.tick((name, w))
        cfg = copy.deepcopy(base)
        if cached:
            cfg['cache'] = cache
        ctx.states += 1
        ctx.transitions += 1
        ctx.evals += 1
        ctx.validated += 1
        kind, bad = run_one(w, cfg)
        if bad and cached:
            with_cache = bad
            kind, bad = run_one(w, copy.deepcopy(base))
            ctx.evals += 1
            ctx.extra['cache_assisted_failures_rerun_without_cache'] += 1
            if not bad:
                # an internal error that only the cache kept by the caller brings about is an internal error all the same (the
                # configuration includes the cache); it needs the earlier calls of this shard, so the runner replays the shard
                ctx.violation(with_cache[0] + ':only-with-the-session-cache', dict(config=name, input=w, cached=True), with_cache[1])
        if kind == 'str':
            ctx.nontrivial += 1
        ctx.outcome((name[0], kind, len(w)))
        if cached:
            ctx.extra['cache_assisted_cases'] += 1
        if bad:
            ctx.violation(bad[0], dict(config=name, input=w), bad[1])
    if w is not None:
        ctx.sample(dict(config=name, input=w))


def check_case(case):
    if case.get('cached'):
        return []           # needs the session: reproduced by the shard replay, never from the single call
    cfg = copy.deepcopy(ALLCFG[case['config']]) if isinstance(case['config'], str) else copy.deepcopy(case['config'])
    kind, bad = run_one(case['input'], cfg)
    return [bad] if bad else []


def repro(case):
    cfg = ALLCFG[case['config']] if isinstance(case['config'], str) else case['config']
    return 'from emmet import expand\nprint(expand(%r, %r))  # must return str or raise a (Token)ScannerException\n' % (
        case['input'], cfg)
