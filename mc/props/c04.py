"""C04  Text content is placed verbatim: inline text and wrapped lines.

(a) E1 over text payloads (units of the abbreviation punctuation alphabet, balanced braces, escape units, unicode) placed
    in every host position text may appear; oracle: output minus the known host frame equals the payload with escapes
    resolved, character for character, and precedes the children.
(b) E1 over lists of wrap lines from a menu of lines that look like abbreviation syntax, numbering, fields ... crossed with
    abbreviation templates with and without an implicit repeater; oracle: closed-form expected output per template.
"""
import itertools
import re
from emmet import expand
from mc import explore
from mc.alphabets import NBSP

ID = 'C04'

TEXT_UNITS = ['a', ' ', '>', '+', '^', '*', '(', ')', '[', ']', '"', "'", '#', '.', '/', '=', ':', '!', '@', '-', '<', 'A', '1',
              ',', '%', 'é', NBSP, '\\$', '\\}', '\\{', '\\\\', '\\a', '{a}', '{}', '*3', '$#'.replace('$#', '\\$#'),
              # a numbering `$` inside text is replaced by the counter (C02) but must not disturb the text around it, nested braces included
              '$', '{b$c}']
HOSTS = [
    ('x{%s}', '<x>', '</x>'),
    ('x{%s}>y', '<x>', '<y></y></x>'),
    ('x>y{%s}+z', '<x><y>', '</y><z></z></x>'),
    ('(x{%s})*2', None, None),
    ('x.c[a=b]{%s}', '<x class="c" a="b">', '</x>'),
    ('x>{%s}', '<x>', '</x>'),
    ('x*2>{%s}+y', None, None),
    ('{%s}', '', ''),
    ('x{%s}/', '<x>', '</x>'),          # an element that carries text is never written as a void tag
    ('p>img{%s}', '<p><img src="" alt="">', '</img></p>'),
]
LINES = ['a', 'b c', '  p ', '', '  ', '$', '$$@-', '*3', 'x>y', '{t}', '${1:f}', '$#', '[k=v]', '\\', 'é', '(', 'a}']
# (abbreviation, kind, frame)  frame: per-line prefix/suffix, outer prefix/suffix
IMPLICIT = [
    ('x*', lambda l: '<x>%s</x>' % l, '', ''),
    ('ul>li*', lambda l: '<li>%s</li>' % l, '<ul>', '</ul>'),
    ('ul>li*>p>q', lambda l: '<li><p><q>%s</q></p></li>' % l, '<ul>', '</ul>'),
    ('li[t=$#]*', lambda l: '<li t="%s"></li>' % l, '', ''),
    ('li*{$#}', lambda l: '<li>%s</li>' % l, '', ''),
    ('li*>p{$#}+q[t=$#]', lambda l: '<li><p>%s</p><q t="%s"></q></li>' % (l, l), '', ''),
    ('(p+q)*', lambda l: '<p></p><q>%s</q>' % l, '', ''),
    ('li*>s*2', lambda l: '<li><s></s><s>%s</s></li>' % l, '', ''),
    ('x{k}*', lambda l: '<x>k%s</x>' % l, '', ''),
    ('p>(x+y{$#})*', lambda l: '<x></x><y>%s</y>' % l, '<p>', '</p>'),
    ('li*>s*2{$#}', lambda l: '<li><s>%s</s><s>%s</s></li>' % (l, l), '', ''),
    ('(d{$#}+e*2>b[t=$#])*', lambda l: '<d>%s</d><e><b t="%s"></b></e><e><b t="%s"></b></e>' % (l, l, l), '', ''),
    # an odd number of placeholders per line inside an explicit repeater; the element's own text ending in a tabstop field
    ('u>li*>s*3{$#}', lambda l: '<li><s>%s</s><s>%s</s><s>%s</s></li>' % (l, l, l), '<u>', '</u>'),
    ('x{k ${1:f}}*', lambda l: '<x>k f%s</x>' % l, '', ''),
    ('u>li{${0}}*', lambda l: '<li>%s</li>' % l, '<u>', '</u>'),
    # the implicit repeater inside explicit ones, with placeholders: every outer copy holds one inner copy per line (frame
    # repeated `times`); without a placeholder only the first run of the implicit repeater receives the text (left unspecified)
    ('x*2>y*{$#}', lambda l: '<y>%s</y>' % l, '<x>', '</x>', 2),
    ('t>r*3>d*{$#}', lambda l: '<d>%s</d>' % l, '<r>', '</r>', 3, '<t>', '</t>'),
    ('(x>y*{$#})*2', lambda l: '<y>%s</y>' % l, '<x>', '</x>', 2),
    # a placeholder in an attribute of an ANCESTOR of the repeated element: the copies still receive their lines
    ('u[t=$#]>li*', lambda l: '<li>%s</li>' % l, None, '</u>'),
]
PLAIN = [
    ('x', '<x>', '</x>'),
    ('x>y', '<x><y>', '</y></x>'),
    ('x>y+z', '<x><y></y><z>', '</z></x>'),
    ('x>y{k}', '<x><y>', '</y></x>'),
    ('(x>y)+z', '<x><y></y></x><z>', '</z>'),
    ('x>y{k${1:f}}', '<x><y>', '</y></x>'),
]
# `$#` without an implicit repeater: the text goes to every placeholder and nowhere else (what the library does), or - the
# literal reading of the property - once into the deepest last element with the placeholders left empty; nothing else
# (e.g. both) is accepted.  Checked for texts of one non-blank line.
PLACEHOLDER_PLAIN = [
    ('p{[$#]}', '<p>[%s]</p>', '<p>[]%s</p>'),
    ('x>h{$#}+p', '<x><h>%s</h><p></p></x>', '<x><h></h><p>%s</p></x>'),
    ('q[c=$#]>p', '<q c="%s"><p></p></q>', '<q c=""><p>%s</p></q>'),
    ('e{$#}*2', '<e>%s</e><e>%s</e>', '<e></e><e>%s</e>'),
]
PLAIN_OWN_TEXT = {'x>y{k}': 'k', 'x>y{k${1:f}}': 'kf'}
BOUNDS = {'quick': dict(payload=3, lines=3, multi=3), 'thorough': dict(payload=4, lines=4, multi=4)}
# (c) text that spans several lines: the three line-break spellings, the tokens that end a string chunk ($ numbering, a field, a
# variable) next to them, blanks, and characters that only `str.splitlines` takes for line breaks (they are ordinary text)
ML_UNITS = ['a', '\n', 'b', ' ', '$', '${1:x}', '${lang}', '\r\n', '\r', '\x0c', '\u2028', '\x85', '\x1c']
ML_SYNTAXES = ['html', 'pug', 'haml']
NOFMT = {'output.format': False}


def describe(tier):
    b = BOUNDS[tier]
    return dict(
        rule='(a) E1: all payloads of 1..%d units from %d text units (operators, brackets, quotes, escapes \\$ \\} \\{ \\\\ \\a, '
             'balanced braces, unicode, nbsp; not starting with `<`) in %d hosts %s. (b) E1: all lists of <= %d wrap lines from a '
             '%d-line menu %s x %d templates with an implicit repeater and %d without. (c) E1: all texts of <= %d units from %s in '
             '`q>x{T}+z` under %s: the lines of T (split at LF, CRLF, CR only) come out verbatim, one output line each. '
             'Every line list also: the same configuration object reused for a second call, and again after calls that fail while an alias is resolved. Transition = one appended unit / line.' % (
                 b['payload'], len(TEXT_UNITS), len(HOSTS), [h[0] for h in HOSTS], b['lines'], len(LINES), LINES,
                 len(IMPLICIT), len(PLAIN), b['multi'], ML_UNITS, ML_SYNTAXES),
        nontrivial='payload has >= 2 units / the list has >= 2 non-blank lines.',
        bounds=b,
        assumptions=['`$` inside inline text is numbering (C02); payloads starting with `<`, `$#` outside an '
                     'implicit repeater, several implicit repeaters and text given as one string with X* are left unspecified'],
        explanation='Each case is expanded by emmet.expand with formatting off and compared as a string with the closed-form expectation.',
    )


def shards(tier):
    b = BOUNDS[tier]
    out = []
    for hi in range(len(HOSTS)):
        for sh in explore.strings_shards(TEXT_UNITS, b['payload'], 1):
            out.append(dict(kind='inline', host=hi, **sh))
    for sh in explore.strings_shards(list(range(len(LINES))), b['lines'], 1):
        out.append(dict(kind='wrap', **sh))
    for sh in explore.strings_shards(ML_UNITS, b['multi'], 1):
        out.append(dict(kind='multiline', **sh))
    return out


def resolve(units, counter=1):
    out = []
    for u in units:
        if len(u) >= 2 and u[0] == '\\':
            out.append(u[1:])
        elif u in ('$', '{b$c}'):
            out.append(u.replace('$', str(counter)))
        else:
            out.append(u)
    return ''.join(out)


def check_inline(hi, units):
    host, pre, post = HOSTS[hi]
    src = ''.join(units)
    txt = resolve(units)
    abbr = host % src
    try:
        out = expand(abbr, {'options': dict(NOFMT)})
    except Exception as e:
        return abbr, ('inline:exception:%s' % type(e).__name__, dict(abbr=abbr, error=str(e)[:120]))
    if host == '(x{%s})*2':
        exp = '<x>%s</x><x>%s</x>' % (txt, resolve(units, 2))
    elif host == 'x*2>{%s}+y':
        exp = '<x>%s<y></y></x><x>%s<y></y></x>' % (txt, resolve(units, 2))
    else:
        exp = pre + txt + post
    if out != exp:
        return abbr, ('inline:not-verbatim:%s' % host.replace('%s', 'T'), dict(abbr=abbr, expected=exp, actual=out))
    return abbr, None


ML_VALUE = {'$': '1', '${1:x}': 'x', '${lang}': 'en'}


def check_multiline(units, syntax):
    "x{T}+z with line breaks in T: every line of T comes out verbatim, in order, one output line each"
    src = ''.join(units)
    abbr = 'q>x{%s}+z' % src
    text = ''.join(ML_VALUE.get(u, u) for u in units)
    lines = re.split(r'\r\n|\r|\n', text)
    try:
        out = expand(abbr, {'syntax': syntax, 'options': {'output.format': True}})
    except Exception as e:
        return abbr, ('multiline:exception:%s' % type(e).__name__, dict(abbr=abbr, error=str(e)[:120]))
    if syntax == 'html':
        if len(lines) == 1:
            exp = '<q>\n\t<x>%s</x>\n\t<z></z>\n</q>' % text
        else:
            exp = '<q>\n\t<x>\n' + ''.join('\t\t%s\n' % l for l in lines) + '\t</x>\n\t<z></z>\n</q>'
    elif syntax == 'pug':
        exp = 'q\n\tx %s\n\tz ' % text if len(lines) == 1 else 'q\n\tx\n' + ''.join('\t\t| %s\n' % l for l in lines) + '\tz '
    else:
        w = max(len(l) for l in lines)          # HAML pads the lines of one text to the same length before the closing ` |`
        exp = '%%q\n\t%%x %s\n\t%%z ' % text if len(lines) == 1 else '%q\n\t%x\n' + ''.join('\t\t%s |\n' % l.ljust(w) for l in lines) + '\t%z '
    if out != exp:
        return abbr, ('multiline:lines-not-verbatim:%s' % syntax, dict(abbr=abbr, syntax=syntax, expected=exp, actual=out))
    return abbr, None


def norm(s):
    return [x.strip() for x in s.strip().splitlines()]


def check_wrap(lines):
    """-> list of (abbr, violation)"""
    bad = []
    clean = [l.strip() for l in lines if l.strip()]
    for tpl in IMPLICIT:
        abbr, f, pre, post = tpl[:4]
        times = tpl[4] if len(tpl) > 4 else 1
        opre, opost = (tpl[5], tpl[6]) if len(tpl) > 6 else ('', '')
        try:
            out = expand(abbr, {'text': list(lines), 'options': dict(NOFMT)})
        except Exception as e:
            bad.append((abbr, ('wrap:exception:%s' % type(e).__name__, dict(abbr=abbr, lines=lines, error=str(e)[:120]))))
            continue
        if pre is None:
            # the ancestor's own placeholder receives the text as a whole (how its lines are joined there is left open)
            m_ = re.match(r'^<u t="[^"]*">', out, re.S)
            pre = m_.group(0) if m_ else '<u t="?">'
        exp = opre + (pre + ''.join(f(l) for l in clean) + post) * times + opost
        if out != exp:
            bad.append((abbr, ('wrap:implicit:%s' % abbr, dict(abbr=abbr, lines=lines, expected=exp, actual=out))))
    # the caller's configuration is reused for a second call: same result, and the text is still there
    cfg_ = {'text': list(lines), 'options': dict(NOFMT)}
    try:
        o1 = expand(IMPLICIT[1][0], cfg_)
        o2 = expand(IMPLICIT[1][0], cfg_)
        if o1 != o2 or cfg_.get('text') != list(lines):
            bad.append((IMPLICIT[1][0], ('wrap:second-call-with-the-same-config-differs', dict(abbr=IMPLICIT[1][0], lines=lines, first=o1, second=o2, text_after=cfg_.get('text')))))
    except Exception as e:
        bad.append((IMPLICIT[1][0], ('wrap:exception:%s' % type(e).__name__, dict(lines=lines, error=str(e)[:120]))))
    # ... also when the call in between failed while an alias was being resolved (the text is set aside during that step)
    cfg_ = {'text': list(lines), 'options': dict(NOFMT), 'snippets': {'zbad': 'ol[title="', 'zout': 'div>zbad'}}
    try:
        o1 = expand(IMPLICIT[1][0], cfg_)
        for failing in ('zbad>li*', 'zout+p'):
            try:
                expand(failing, cfg_)
            except Exception:
                pass
        o2 = expand(IMPLICIT[1][0], cfg_)
        if o1 != o2 or cfg_.get('text') != list(lines):
            bad.append((IMPLICIT[1][0], ('wrap:call-after-a-failed-call-with-the-same-config-differs', dict(abbr=IMPLICIT[1][0], lines=lines, first=o1, second=o2, text_after=cfg_.get('text')))))
    except Exception as e:
        bad.append((IMPLICIT[1][0], ('wrap:exception:%s' % type(e).__name__, dict(lines=lines, error=str(e)[:120]))))
    whole = '\n'.join(lines).strip()
    if len(clean) >= 1:
        # the same lines supplied as ONE string: either reading is accepted (a single text -> one copy holding all of it; or its
        # lines -> one copy per non-blank line), nothing else (e.g. several copies that each hold the whole text)
        for abbr, f, pre, post in [t[:4] for t in IMPLICIT[:2]]:
            try:
                out = expand(abbr, {'text': '\n'.join(lines), 'options': dict(NOFMT)})
            except Exception as e:
                bad.append((abbr, ('wrap-string:exception:%s' % type(e).__name__, dict(abbr=abbr, text='\n'.join(lines), error=str(e)[:120]))))
                continue
            per_line = pre + ''.join(f(l) for l in clean) + post
            one_copy = pre + f('\x00') + post
            a, b_ = one_copy.split('\x00')
            ok = out == per_line or (out.startswith(a) and out.endswith(b_) and norm(out[len(a):len(out) - len(b_)]) == norm(whole))
            if not ok:
                bad.append((abbr, ('wrap-string:%s' % abbr, dict(abbr=abbr, text='\n'.join(lines), actual=out, accepted=[per_line, a + whole + b_]))))
    if len(clean) == 1 and len(lines) == 1:
        for abbr, at_placeholders, appended in PLACEHOLDER_PLAIN:
            for text in (list(lines), clean[0]):
                try:
                    out = expand(abbr, {'text': text, 'options': dict(NOFMT)})
                except Exception as e:
                    bad.append((abbr, ('wrap:exception:%s' % type(e).__name__, dict(abbr=abbr, lines=lines, error=str(e)[:120]))))
                    continue
                accepted = [f_.replace('%s', t) for t in (clean[0], lines[0]) for f_ in (at_placeholders, appended)]   # trimmed or as given
                if out not in accepted:
                    bad.append((abbr, ('wrap:placeholder-without-implicit-repeater:%s' % abbr, dict(abbr=abbr, text=text, actual=out, accepted=accepted))))
    for abbr, pre, post in PLAIN:
        try:
            out = expand(abbr, {'text': list(lines), 'options': dict(NOFMT)})
        except Exception as e:
            bad.append((abbr, ('wrap:exception:%s' % type(e).__name__, dict(abbr=abbr, lines=lines, error=str(e)[:120]))))
            continue
        got = out[len(pre):len(out) - len(post)] if out.startswith(pre) and out.endswith(post) and len(out) >= len(pre) + len(post) else None
        want = PLAIN_OWN_TEXT.get(abbr, '') + whole
        if got is None or norm(got) != norm(want):
            bad.append((abbr, ('wrap:plain:%s' % abbr, dict(abbr=abbr, lines=lines, expected=pre + want + post, actual=out))))
    return bad


def run_shard(shard, ctx, tier):
    if shard['kind'] == 'inline':
        hi = shard['host']
        abbr = None
        for units in explore.strings_of_shard(TEXT_UNITS, shard):
            if not units or units[0] == '<':
                continue
            if any(units[i] == '$' and units[i + 1][0] in '#@${' for i in range(len(units) - 1)):
                ctx.skip('`$` followed by `#`, `@`, `$` or `{` is another token ($#, modifier, wider run, field)')
                continue
            ctx.tick(units)
            ctx.states += 1
            ctx.transitions += 1
            ctx.evals += 1
            ctx.validated += 1
            if len(units) >= 2:
                ctx.nontrivial += 1
            abbr, bad = check_inline(hi, units)
            ctx.outcome((hi, len(units), bad is None))
            if bad:
                ctx.violation(bad[0], dict(host=hi, units=list(units), abbr=abbr), bad[1])
        if abbr:
            ctx.sample(dict(abbr=abbr))
        return
    if shard['kind'] == 'multiline':
        abbr = None
        for units in explore.strings_of_shard(ML_UNITS, shard):
            if not units:
                continue
            if any(units[i] == '$' and units[i + 1][0] in '#@${' for i in range(len(units) - 1)):
                ctx.skip('`$` followed by `#`, `@`, `$` or `{` is another token ($#, modifier, wider run, field)')
                continue
            if any(units[i] == '\r' and units[i + 1] in ('\n', '\r\n') for i in range(len(units) - 1)):
                ctx.skip('a lone CR directly followed by LF is the CRLF unit')
                continue
            ctx.tick(units)
            for syntax in ML_SYNTAXES:
                ctx.states += 1
                ctx.transitions += 1
                ctx.evals += 1
                ctx.validated += 1
                if len(units) >= 2:
                    ctx.nontrivial += 1
                abbr, bad = check_multiline(units, syntax)
                ctx.outcome(('ml', syntax, len(units), bad is None))
                if bad:
                    ctx.violation(bad[0], dict(ml=list(units), syntax=syntax, abbr=abbr), bad[1])
        if abbr:
            ctx.sample(dict(abbr=abbr))
        return
    lines = None
    for idx in explore.strings_of_shard(list(range(len(LINES))), shard):
        lines = [LINES[i] for i in idx]
        ctx.tick(lines)
        ctx.states += 1
        ctx.transitions += 1
        n = len(IMPLICIT) + len(PLAIN)
        ctx.evals += n
        ctx.validated += n
        if sum(1 for l in lines if l.strip()) >= 2:
            ctx.nontrivial += 1
        ctx.outcome(tuple(bool(l.strip()) for l in lines))
        for abbr, b in check_wrap(lines):
            ctx.violation(b[0], dict(lines=lines, abbr=abbr), b[1])
    if lines is not None:
        ctx.sample(dict(lines=lines, templates=[t[0] for t in IMPLICIT] + [t[0] for t in PLAIN]))


def check_case(case):
    if 'ml' in case:
        _, bad = check_multiline(tuple(case['ml']), case['syntax'])
        return [bad] if bad else []
    if 'host' in case:
        _, bad = check_inline(case['host'], tuple(case['units']))
        return [bad] if bad else []
    return [b for a, b in check_wrap(case['lines']) if a == case['abbr']]


def repro(case):
    if 'ml' in case:
        return 'from emmet import expand\nprint(repr(expand(%r, {"syntax": %r})))\n' % (case['abbr'], case['syntax'])
    if 'host' in case:
        return 'from emmet import expand\nprint(expand(%r, {"options": {"output.format": False}}))\n' % case['abbr']
    return 'from emmet import expand\nprint(expand(%r, {"text": %r, "options": {"output.format": False}}))\n' % (case['abbr'], case['lines'])
