"""C18  Tokenizers are lossless: token spans tile the abbreviation.

Explorer E1 (typing tree) over the markup alphabet and the stylesheet alphabet (property and value mode),
token-level unit alphabets, and E3 edit neighbourhoods of valid abbreviations.  Every string is tokenized by the
real tokenizer; the oracle is the tiling invariant of the statement plus "each token maps back to its characters".
"""
import itertools
from emmet.abbreviation.tokenizer import tokenize as m_tokenize
from emmet.css_abbreviation.tokenizer import tokenize as s_tokenize
from emmet.scanner import ScannerException
from mc import explore
from mc.alphabets import SIGMA_M, SIGMA_S, UNITS_M, UNITS_S, SIGMA_M_STRUCT, SEEDS_M, SEEDS_S

ID = 'C18'

MODES = ('markup', 'css-prop', 'css-value')


def describe(tier):
    b = BOUNDS[tier]
    return dict(
        rule='E1: every string over the markup alphabet (%d symbols) with <= %d symbols, over its %d structural symbols '
             'with <= %d, over the stylesheet alphabet (%d symbols) with <= %d symbols in property and in value mode; every '
             'sequence of <= %d token-level units (markup %d units, stylesheet %d units); E3: every string at edit distance '
             '<= %d from %d markup and %d stylesheet seed abbreviations. State = string typed so far, transition = one '
             'appended symbol / one edit.' % (
                 len(SIGMA_M), b['chars'], len(SIGMA_M_STRUCT), b['struct'], len(SIGMA_S), b['chars_s'], b['units'],
                 len(UNITS_M), len(UNITS_S), b['radius'], len(SEEDS_M[:b['seeds']]), len(SEEDS_S[:b['seeds']])),
        nontrivial='the tokenizer returned at least two tokens (so contiguity is actually exercised).',
        bounds=b,
        assumptions=['alphabets hold one representative per character class the tokenizers distinguish (mc/alphabets.py)',
                     'strings longer than the bounds are covered only inside edit neighbourhoods of the seed corpus'],
        explanation='Direct exploration of the implementation: each explored string is tokenized by emmet and the token '
                    'spans are checked against the tiling invariant; traces_validated = number of tokenizer runs.',
    )


BOUNDS = {
    'quick': dict(chars=4, struct=5, chars_s=4, units=3, radius=1, seeds=40),
    'thorough': dict(chars=5, struct=6, chars_s=5, units=4, radius=2, seeds=24),
}


def shards(tier):
    b = BOUNDS[tier]
    out = []
    for sh in explore.strings_shards(SIGMA_M, b['chars']):
        out.append(dict(kind='chars', mode='markup', **sh))
    for sh in explore.strings_shards(SIGMA_M_STRUCT, b['struct']):
        out.append(dict(kind='struct', mode='markup', **sh))
    for mode in ('css-prop', 'css-value'):
        for sh in explore.strings_shards(SIGMA_S, b['chars_s']):
            out.append(dict(kind='chars', mode=mode, **sh))
        for sh in explore.strings_shards(UNITS_S, b['units'], 1):
            out.append(dict(kind='units', mode=mode, **sh))
    for sh in explore.strings_shards(UNITS_M, b['units'], 1):
        out.append(dict(kind='units', mode='markup', **sh))
    for i, s in enumerate(SEEDS_M[:b['seeds']]):
        out.append(dict(kind='nbh', mode='markup', seed=s, radius=b['radius']))
    for i, s in enumerate(SEEDS_S[:b['seeds']]):
        for mode in ('css-prop', 'css-value'):
            out.append(dict(kind='nbh', mode=mode, seed=s, radius=b['radius']))
    return out


def _tok(mode, w):
    if mode == 'markup':
        return m_tokenize(w)
    return s_tokenize(w, mode == 'css-value')


SINGLE = {'child': '>', 'sibling': '+', 'climb': '^', 'class': '.', 'id': '#', 'close': '/', 'equal': '='}


def examine(mode, w):
    """-> (violations, ntokens or None).  violations: list of (class, detail)"""
    try:
        toks = _tok(mode, w)
    except ScannerException as e:
        pos = e.pos
        if not isinstance(pos, int) or not (0 <= pos <= len(w)):
            return [('%s:error-pos-outside-input' % mode, dict(pos=pos, len=len(w)))], None
        return [], None
    except Exception as e:
        return [('%s:exc:%s' % (mode, type(e).__name__), str(e)[:200])], None
    bad = []
    pos = 0
    n = len(w)
    for i, t in enumerate(toks):
        s, e = getattr(t, 'start', None), getattr(t, 'end', None)        # a slot that was never set is an undefined span, not a harness error
        if not isinstance(s, int) or not isinstance(e, int):
            bad.append(('%s:span-undefined:%s' % (mode, t.type), dict(index=i, start=s, end=e)))
            break
        if not s < e:
            bad.append(('%s:span-empty:%s' % (mode, t.type), dict(index=i, start=s, end=e)))
            break
        if s != pos:
            bad.append(('%s:span-gap-or-overlap:%s' % (mode, t.type), dict(index=i, start=s, expected_start=pos)))
            break
        pos = e
        txt = w[s:e]
        ty = t.type
        if mode == 'markup':
            if ty == 'Operator' and SINGLE.get(t.operator) != txt:
                bad.append(('markup:content:Operator', dict(text=txt, operator=t.operator)))
            elif ty == 'Quote' and txt != ("'" if t.single else '"'):
                bad.append(('markup:content:Quote', dict(text=txt)))
            elif ty == 'Bracket' and txt not in '()[]{}':
                bad.append(('markup:content:Bracket', dict(text=txt)))
            elif ty == 'WhiteSpace' and t.value != txt:
                bad.append(('markup:content:WhiteSpace', dict(text=txt, value=t.value)))
            elif ty == 'Literal' and t.value != _unescape(txt):
                bad.append(('markup:content:Literal', dict(text=txt, value=t.value)))
            elif ty == 'Repeater' and txt[0] != '*':
                bad.append(('markup:content:Repeater', dict(text=txt)))
            elif ty in ('RepeaterNumber', 'RepeaterPlaceholder') and txt[0] != '$':
                bad.append(('markup:content:' + ty, dict(text=txt)))
        else:
            if ty == 'Operator' and t.operator != txt:
                bad.append(('css:content:Operator', dict(text=txt, operator=t.operator)))
            elif ty == 'Bracket' and txt != ('(' if t.open else ')'):
                bad.append(('css:content:Bracket', dict(text=txt)))
            elif ty in ('Literal', 'CustomProperty') and t.value != txt:
                bad.append(('css:content:' + ty, dict(text=txt, value=t.value)))
            elif ty == 'NumberValue' and t.raw_value + t.unit != txt:
                bad.append(('css:content:NumberValue', dict(text=txt, raw=t.raw_value, unit=t.unit)))
            elif ty == 'ColorValue' and '#' + t.raw != txt:
                bad.append(('css:content:ColorValue', dict(text=txt, raw=t.raw)))
            elif ty == 'StringValue' and t.value != txt[1:len(txt) - 1 if len(txt) > 1 and txt[-1] == txt[0] else len(txt)]:
                bad.append(('css:content:StringValue', dict(text=txt, value=t.value)))
    if not bad and pos != n:
        bad.append(('%s:span-does-not-reach-end' % mode, dict(last_end=pos, len=n)))
    return bad, len(toks)


def _unescape(s):
    out = []
    i = 0
    while i < len(s):
        if s[i] == '\\':
            i += 1
            if i < len(s):
                out.append(s[i])
                i += 1
        else:
            out.append(s[i])
            i += 1
    return ''.join(out)


def run_shard(shard, ctx, tier):
    mode = shard['mode']
    kind = shard['kind']
    if kind == 'nbh':
        alpha = SIGMA_M if mode == 'markup' else SIGMA_S
        words = explore.neighbourhood(shard['seed'], alpha, shard['radius'])
        gen = ((w, None) for w in words)
    else:
        if kind == 'chars':
            alpha = SIGMA_M if mode == 'markup' else SIGMA_S
        elif kind == 'struct':
            alpha = SIGMA_M_STRUCT
        else:
            alpha = UNITS_M if mode == 'markup' else UNITS_S
        gen = ((''.join(t), t) for t in explore.strings_of_shard(alpha, shard))
    for w, units in gen:
        ctx.tick(w)
        ctx.states += 1
        ctx.transitions += 1
        ctx.evals += 1
        ctx.validated += 1
        bad, ntok = examine(mode, w)
        if ntok is None:
            ctx.extra['scanner_errors'] += 1
            ctx.outcome((mode, 'err'))
        else:
            if ntok >= 2:
                ctx.nontrivial += 1
            ctx.outcome((mode, ntok, len(w)))
        for cls, detail in bad:
            ctx.violation(cls, dict(mode=mode, input=w), detail)
    ctx.sample(dict(mode=mode, input=w, tokens=ntok))


def check_case(case):
    bad, _ = examine(case['mode'], case['input'])
    return bad


def repro(case):
    if case['mode'] == 'markup':
        call = 'from emmet.abbreviation.tokenizer import tokenize\ntoks = tokenize(%r)' % case['input']
    else:
        call = 'from emmet.css_abbreviation.tokenizer import tokenize\ntoks = tokenize(%r, %r)' % (
            case['input'], case['mode'] == 'css-value')
    return call + '\nprint([(t.type, t.start, t.end) for t in toks])  # spans must tile [0, %d)\n' % len(case['input'])
