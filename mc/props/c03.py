"""C03  Attributes are carried over, merged and quoted as written.

E2 x E4: one element with every sequence of <= k attribute mentions from a menu (ids, classes, bracket attributes of every
kind), adjacent bracket mentions sharing one [...] or not, crossed with all option sets at <= 2 deviations from the default
and the html/xml/jsx/vue syntaxes; plus an E1 payload sweep ("values appear verbatim").  Oracle: reference merge (ordered
dict keyed by name in order of first mention) compared with the attribute list read by the independent lexer.
"""
import itertools
from emmet import expand
from mc import session
from mc import explore
from mc.lexers import lex_html

ID = 'C03'

# (source, name, value, flag)
MENU = [
    ('#i1', 'id', 'i1', None), ('.c1', 'class', 'c1', None), ('[a=v1]', 'a', 'v1', None), ('[a="q v"]', 'a', 'q v', None),
    ('[a]', 'a', None, None), ('.c2', 'class', 'c2', None), ('#i2', 'id', 'i2', None), ('[a=v2]', 'a', 'v2', None),
    ("[a='s']", 'a', 's', None), ('[b=w]', 'b', 'w', None), ('[g.]', 'g', None, 'bool'), ('[!d]', 'd', None, 'implied'),
    ('[!h=z]', 'h', 'z', 'implied'), ('[e={x}]', 'e', 'x', 'expr'), ('[disabled]', 'disabled', None, 'listed'),
    ('[class=k]', 'class', 'k', None), ('[id=j]', 'id', 'j', None), ('[for=f]', 'for', 'f', None),
    ('[!k.]', 'k', None, 'implied'), ('[a=""]', 'a', '', None),
    ('[class=""]', 'class', '', None),         # an empty class mention: whether it contributes a space of its own is left open
    ('[class]', 'class', None, None),          # value-less first mention of a class: later mentions still merge into it
    ('[Checked]', 'Checked', None, 'listed'),
    ('[a.]', 'a', None, 'bool'),                 # the boolean marker on the LAST mention of a repeated attribute (see run_shard)
    ('[zed]', 'zed', None, 'listed-explicit'),       # boolean only under the explicit list: the two lists alternate within one process
    ('[!m=""]', 'm', '', 'implied'),               # an implied attribute with an explicit empty value is written      # HTML attribute names are case-insensitive: still the listed boolean attribute
    ('..c3', 'class', 'c3', None),        # doubled shorthand: still a class attribute (html / xml syntaxes only, see run_shard)
]
# sequences longer than three mentions continue with the mentions that take part in merging (ids, classes, the attribute `a`
# in every value form, a boolean, an implied one); the first mention still ranges over the whole menu
CORE_SOURCES = ['[a.]', '#i1', '.c1', '[a=v1]', '[a="q v"]', '[a]', '.c2', '#i2', "[a='s']", '[g.]', '[!d]', '[e={x}]', '[class=k]',
                '[class]', '[class=""]', '[disabled]', '[a=""]']
OPTION_SPACE = {
    'output.attributeQuotes': ['double', 'single'],
    'output.attributeCase': ['', 'upper', 'lower'],
    'output.compactBoolean': [False, True],
    'output.reverseAttributes': [False, True],
    'output.selfClosingStyle': ['html', 'xhtml', 'xml'],
    'markup.attributes': [None, {'class': 'cls', 'id': 'ident', 'g': 'gg'}],
}
SYNTAXES = ['html', 'xml', 'jsx', 'vue']
NAME_MAP = {'jsx': {'class': 'className', 'for': 'htmlFor'}}
BOOL_LIST = ['disabled', 'checked', 'zed']

BOUNDS = {
    # (k, deviations, syntaxes, boolean-list variants)
    'quick': dict(sweeps=[(4, 0, ['html'], [True]), (3, 1, ['html', 'jsx'], [True]), (2, 2, SYNTAXES, [True, False, 'empty'])],
                  payload=3),
    'thorough': dict(sweeps=[(5, 0, ['html'], [True]), (4, 1, SYNTAXES, [True]), (3, 2, SYNTAXES, [True, False, 'empty'])],
                     payload=4),
}
PAYLOAD_UNITS = ['a', '1', ' ', '>', '+', '^', '*', '(', ')', '[', ']', '{', '}', '"', "'", '#', '.', '/', '=', ':', '!', '@',
                 '-', ',', '%', 'é']
HOSTS = [
    ('x[a=%s]', '"', set(' "\'[]{}=$*')),
    ('x[a="%s"]', '"', set('"$')),
    ("x[a='%s']", '"', set("'$\"")),
    ('x[a={%s}]', '{', set('$')),
]


def describe(tier):
    b = BOUNDS[tier]
    return dict(
        rule='E2xE4: element x with every sequence of <= k mentions from a %d-entry menu (from the fourth mention on: the 16 merge-relevant entries; flagged names at most once), adjacent '
             'bracket mentions sharing a bracket or not, under all option sets with <= d deviations over %s, syntaxes and '
             'boolean-list variants (True = explicit [disabled, checked, zed] / False = library default / empty = []): (k, d, syntaxes, explicit-list) in %s. '
             'Payload sweep E1: all payloads of <= %d units from %d units in hosts x[a=P], x[a="P"], x[a=\'P\'], x[a={P}] (units '
             'excluded per host as documented). Hosts for <= 2 mentions: inside repeaters %s; the calls of a shard share one cache dict. Transition = one more mention / one option toggle / one appended unit.' % (
                 len(MENU), list(OPTION_SPACE), b['sweeps'], b['payload'], len(PAYLOAD_UNITS), list(HOSTS_REPEAT)),
        nontrivial='the element carries at least two mentions of the same attribute name (a merge happens), or the payload has >= 2 units.',
        bounds=b,
        assumptions=['merging of flags between repeated mentions, compactBoolean under xhtml/xml, `..` shorthands, valuePrefix and '
                     'values containing the configured quote are left unspecified'],
        explanation='Every case is expanded by emmet.expand and the attribute list of the single tag is compared with the reference merge.',
    )


def shards(tier):
    b = BOUNDS[tier]
    out = []
    for si, (k, d, syns, bl) in enumerate(b['sweeps']):
        for first in range(len(MENU)):
            out.append(dict(kind='merge', sweep=si, first=first))
    for hi in range(len(HOSTS)):
        for sh in explore.strings_shards(PAYLOAD_UNITS, b['payload'], 1):
            out.append(dict(kind='payload', host=hi, **sh))
    return out


def source(ms, share):
    s = 'x'
    prev = False
    for m in ms:
        src = m[0]
        if src.startswith('[') and prev and share:
            s = s[:-1] + ' ' + src[1:]
        else:
            s += src
        prev = src.startswith('[')
    return s


def reference(ms, opts, syntax, explicit_list):
    order = []
    d = {}
    rev = opts.get('output.reverseAttributes')
    for _src, name, val, flag in ms:
        if name not in d:
            order.append(name)
            d[name] = [val, flag]
        elif name == 'class':
            pv = d[name][0]
            if pv and val:
                d[name][0] = pv + ' ' + val
            elif not pv:
                d[name][0] = val if (val is not None or pv is None) else pv
        elif not rev:
            d[name][0] = val
            if flag == 'bool':
                d[name][1] = 'bool'
    q = "'" if opts.get('output.attributeQuotes') == 'single' else '"'
    amap = opts.get('markup.attributes') or NAME_MAP.get(syntax, {})
    case = opts.get('output.attributeCase')
    style = opts.get('output.selfClosingStyle', 'xml' if syntax == 'xml' else 'html')
    res = []
    for name in order:
        val, flag = d[name]
        out = amap.get(name, name)
        if case == 'upper':
            out = out.upper()
        elif case == 'lower':
            out = out.lower()
        if flag == 'implied' and val is None:
            continue
        if flag == 'listed-explicit' and explicit_list is not True:
            flag = None
        if flag == 'listed' and explicit_list == 'empty':
            flag = None             # an empty list is a list: nothing is boolean by its name
        if flag in ('bool', 'listed', 'listed-explicit') and val is None:
            if opts.get('output.compactBoolean'):
                if style != 'html':
                    # XML-style output: a bare attribute is not well-formed there; which value is written is left open
                    res.append((out, 'XMLBOOL', None))
                else:
                    res.append((out, None, None))
            else:
                res.append((out, q, out))
        elif flag == 'expr':
            res.append((out, '{', val))
        else:
            res.append((out, q, val or ''))
    return tuple(res)


# ... and after a sibling that carries the other form of the same attribute names (single / doubled class shorthand, a valued /
# boolean attribute): what is worked out for one element's attributes must not stick to the next element
HOSTS_REPEAT = ('%s*2', '(%s+y)*2', 'p>%s*3', 'q.k[a=1 d.]+%s', 'q..k[a. d=1]+%s')
# the mentions written on a snippet alias whose definition has two top-level elements: both receive the same attribute list
HOST_ALIAS = 'ALIAS'
ALIAS_SNIPPETS = {'al': 'x+x'}


def check_merge(ms, share, opts, syntax, explicit_list, host=None):
    s = source(ms, share)
    cfg = {'syntax': syntax}
    if host == HOST_ALIAS:
        s = 'al' + s[1:]
        cfg['snippets'] = dict(ALIAS_SNIPPETS)
    elif host:
        s = host % s
    o = dict((k, v) for k, v in opts.items() if v is not None)
    o['output.format'] = False
    if explicit_list:
        o['output.booleanAttributes'] = list(BOOL_LIST) if explicit_list is True else []
    exp = reference(ms, opts, syntax, explicit_list)
    try:
        cfg['options'] = o
        cfg['cache'] = session.CACHE        # the shard's calls share one cache dict (mc/session.py)
        out = expand(s, cfg)
        ev = lex_html(out)
        if host:
            copies = [e[2] for e in ev if e[0] == 'o' and e[1] == 'x']
            want = 3 if host.endswith('*3') else (1 if host.startswith('q') else 2)
            if len(copies) != want:
                return s, ('attrs:repeated-host-copies', dict(abbr=s, output=out[:200]))
        else:
            copies = [ev[0][2] if ev and ev[0][0] == 'o' else ('NO-TAG', out)]
    except Exception as e:
        return s, ('exception:%s' % type(e).__name__, str(e)[:200])
    # "joined by single spaces": whether an *empty* class mention contributes a space of its own is left open (the class
    # tokens and their order are still compared)
    empty_class = any(m[1] == 'class' and m[2] == '' for m in ms)
    cname = next((e[0] for e in exp if e[0].lower() in ('class', 'classname', 'cls')), None)

    def same(g, e):
        if g == e or (e[1] == 'XMLBOOL' and g[0] == e[0] and g[1] is not None and g[2] in ('', g[0])):
            return True
        return bool(empty_class and e[0] == cname and g[:2] == e[:2] and isinstance(g[2], str) and isinstance(e[2], str)
                    and g[2].split(' ') != [] and [t for t in g[2].split(' ') if t] == [t for t in e[2].split(' ') if t])
    for ci, got in enumerate(copies):
        if not (len(got) == len(exp) and all(same(g, e) for g, e in zip(got, exp))):
            return s, (classify(exp, got) + ((':element-%d-of-alias' if host == HOST_ALIAS else ':copy-%d-of-repeated-element') % (ci + 1) if host else ''),
                       dict(abbr=s, expected=exp, actual=got, output=out[:200]))
    return s, None


def check_label(ms, share, syntax, explicit_list):
    """The same mentions written on a <label> that wraps a form control (the label add-on drops an EMPTY `for` there): every
    attribute the reference gives a non-empty value is on the label with that value (weak oracle: nothing valued is lost)."""
    s = 'label' + source(ms, share)[1:] + '>input'
    o = {'output.format': False}
    if explicit_list:
        o['output.booleanAttributes'] = list(BOOL_LIST) if explicit_list is True else []
    exp = reference(ms, {}, syntax, explicit_list)
    try:
        ev = lex_html(expand(s, {'syntax': syntax, 'options': o}))
        got = ev[0][2] if ev and ev[0][0] == 'o' and ev[0][1] == 'label' else None
    except Exception as e:
        return s, ('exception:%s' % type(e).__name__, str(e)[:200])
    if got is None:
        return s, ('attrs:no-tag', dict(abbr=s))
    have = dict((g[0], g[2]) for g in got)
    def norm_(v):
        return ' '.join(v.split()) if isinstance(v, str) else v           # (an empty class mention may leave a space, see check_merge)
    lost = [(e[0], e[2]) for e in exp if e[2] and e[1] != 'XMLBOOL' and norm_(have.get(e[0])) != norm_(e[2])]
    if lost:
        return s, ('attrs:valued-attribute-lost-on-a-label-that-wraps-a-control', dict(abbr=s, lost=lost, actual=got))
    return s, None


def classify(exp, got):
    if got and got[0] == 'NO-TAG':
        return 'attrs:no-tag'
    en = [e[0] for e in exp]
    gn = [g[0] for g in got]
    if en != gn:
        if sorted(en) == sorted(gn):
            return 'attrs:order'
        if [x.lower() for x in en] == [x.lower() for x in gn]:
            return 'attrs:name-case'
        return 'attrs:names'
    for e, g in zip(exp, got):
        if e[1] == 'XMLBOOL':
            if g[1] is None:
                return 'attrs:bare-boolean-in-xml-style'
            continue
        if e[1] != g[1]:
            return 'attrs:quote'
        if e[2] != g[2]:
            return 'attrs:value'
    return 'attrs:other'


def option_sets(d):
    return list(explore.deviations(OPTION_SPACE, d))


def run_shard(shard, ctx, tier):
    b = BOUNDS[tier]
    if shard['kind'] == 'payload':
        return run_payload(shard, ctx)
    k, d, syns, bls = b['sweeps'][shard['sweep']]
    first = MENU[shard['first']]
    osets = option_sets(d)
    s = None
    core = [m for m in MENU if m[0] in CORE_SOURCES]
    for n in range(1, k + 1):
        for rest in itertools.product(MENU if n <= 3 else core, repeat=n - 1):
            ms = (first,) + rest
            names = [m[1] for m in ms]
            if any(m[3] and names.count(m[1]) > 1 and not (m[0] == '[a.]' and all(x[1] != 'a' for x in ms[ms.index(m) + 1:]))
                   for m in ms):
                continue                  # flags on repeated mentions are left unspecified, except a boolean marker on the last one
            bool_last = any(m[0] == '[a.]' for m in ms) and names.count('a') > 1
            doubled = any(m[0].startswith('..') for m in ms)
            merged = len(set(names)) < len(names)
            brackets_adjacent = any(ms[i][0][0] == '[' and ms[i + 1][0][0] == '[' for i in range(n - 1))
            for share in ((0, 1) if brackets_adjacent else (0,)):
                for syntax in syns:
                    if doubled and syntax in ('jsx', 'vue'):
                        continue        # `class*` mappings / value prefixes of these syntaxes are left unspecified
                    for opts in osets:
                        if bool_last and opts.get('output.reverseAttributes'):
                            continue          # first value wins there: which flags survive is left unspecified
                        for bl in bls:
                            ctx.tick((ms, opts))
                            ctx.states += 1
                            ctx.transitions += 1
                            ctx.evals += 1
                            ctx.validated += 1
                            if merged:
                                ctx.nontrivial += 1
                            s, bad = check_merge(ms, share, opts, syntax, bl)
                            if bad:
                                ctx.violation(bad[0], dict(mentions=[m[0] for m in ms], share=share, options=opts, syntax=syntax,
                                                           explicit_boolean_list=bl, abbr=s), bad[1])
                            if n <= 3 and not opts and syntax == 'html':
                                ctx.states += 1
                                ctx.transitions += 1
                                ctx.evals += 1
                                ctx.validated += 1
                                s2, bad = check_merge(ms, share, opts, syntax, bl, HOST_ALIAS)
                                if bad:
                                    ctx.violation(bad[0], dict(mentions=[m[0] for m in ms], share=share, options=opts, syntax=syntax,
                                                               explicit_boolean_list=bl, abbr=s2, host=HOST_ALIAS), bad[1])
                            if n <= 2 and not opts and syntax in ('html', 'jsx'):
                                ctx.states += 1
                                ctx.transitions += 1
                                ctx.evals += 1
                                ctx.validated += 1
                                s3, bad = check_label(ms, share, syntax, bl)
                                if bad:
                                    ctx.violation(bad[0], dict(mentions=[m[0] for m in ms], share=share, options=opts, syntax=syntax,
                                                               explicit_boolean_list=bl, abbr=s3, host='LABEL'), bad[1])
                            if n <= 2 and len(opts) <= 1:
                                # the same element inside repeaters: every copy carries the same attribute list
                                for host in HOSTS_REPEAT:
                                    ctx.states += 1
                                    ctx.transitions += 1
                                    ctx.evals += 1
                                    ctx.validated += 1
                                    s2, bad = check_merge(ms, share, opts, syntax, bl, host)
                                    if bad:
                                        ctx.violation(bad[0], dict(mentions=[m[0] for m in ms], share=share, options=opts, syntax=syntax,
                                                                   explicit_boolean_list=bl, abbr=s2, host=host), bad[1])
            ctx.outcome(tuple(sorted(set(names))) + (n,))
    if s:
        ctx.sample(dict(abbr=s))


def lit(u):
    return u


def check_payload(host_index, units):
    host, q, excl = HOSTS[host_index]
    txt = ''.join(units)
    if any(c in excl for c in txt):
        return None, 'excluded'
    if host_index == 0:
        # unquoted: round brackets balanced
        d = 0
        for c in txt:
            if c == '(':
                d += 1
            elif c == ')':
                d -= 1
                if d < 0:
                    return None, 'excluded'
        if d:
            return None, 'excluded'
        if txt.endswith('.') or txt.startswith('!'):
            pass
    if host_index == 3:
        d = 0
        for c in txt:
            if c == '{':
                d += 1
            elif c == '}':
                d -= 1
                if d < 0:
                    return None, 'excluded'
        if d:
            return None, 'excluded'
    abbr = host % txt
    try:
        out = expand(abbr, {'options': {'output.format': False}})
    except Exception as e:
        return abbr, ('payload:exception:%s' % type(e).__name__, dict(abbr=abbr, error=str(e)[:120]))
    exp = '<x a=%s%s%s></x>' % (q, txt, '}' if q == '{' else q)
    if out != exp:
        return abbr, ('payload:not-verbatim:%s' % host.replace('%s', 'P'), dict(abbr=abbr, expected=exp, actual=out))
    return abbr, None


def run_payload(shard, ctx):
    hi = shard['host']
    abbr = None
    for units in explore.strings_of_shard(PAYLOAD_UNITS, shard):
        if not units:
            continue
        ctx.tick(units)
        a, bad = check_payload(hi, units)
        if bad == 'excluded':
            ctx.skip('payload uses a character excluded for this host')
            continue
        abbr = a
        ctx.states += 1
        ctx.transitions += 1
        ctx.evals += 1
        ctx.validated += 1
        if len(units) >= 2:
            ctx.nontrivial += 1
        ctx.outcome((hi, len(units), bad is None))
        if bad:
            ctx.violation(bad[0], dict(host=hi, units=list(units), abbr=a), bad[1])
    if abbr:
        ctx.sample(dict(abbr=abbr))


BY_SRC = dict((m[0], m) for m in MENU)


def check_case(case):
    if 'units' in case:
        _, bad = check_payload(case['host'], tuple(case['units']))
        return [bad] if bad and bad != 'excluded' else []
    ms = tuple(BY_SRC[s] for s in case['mentions'])
    if case.get('host') == 'LABEL':
        _, bad = check_label(ms, case['share'], case['syntax'], case['explicit_boolean_list'])
        return [bad] if bad else []
    _, bad = check_merge(ms, case['share'], case['options'], case['syntax'], case['explicit_boolean_list'], case.get('host'))
    return [bad] if bad else []


def repro(case):
    if 'units' in case:
        return 'from emmet import expand\nprint(expand(%r, {"options": {"output.format": False}}))\n' % case['abbr']
    o = dict(case['options'])
    o['output.format'] = False
    if case['explicit_boolean_list']:
        o['output.booleanAttributes'] = BOOL_LIST if case['explicit_boolean_list'] is True else []
    cfg = {'syntax': case['syntax'], 'options': o}
    if case.get('host') == HOST_ALIAS:
        cfg['snippets'] = dict(ALIAS_SNIPPETS)
    return 'from emmet import expand\nprint(expand(%r, %r))\n' % (case['abbr'], cfg)
