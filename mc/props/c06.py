"""C06  A stylesheet snippet is always reachable by its own key.

The built-in stylesheet snippet table is finite: it is enumerated completely (every key x syntaxes x every dash-free
keyword x forms x letter cases x scopes x user overrides).  The table is read by an independent classifier (a regular
expression on the raw definition), not by the library's create_snippet().
"""
import re
from emmet import expand
from emmet.config import Config

ID = 'C06'

SYNTAX_FMT = {'css': (': ', ';'), 'scss': (': ', ';'), 'less': (': ', ';'), 'sass': (': ', ''), 'sss': (': ', ';'), 'stylus': (' ', '')}
BOUNDS = {'quick': dict(syntaxes=['css', 'stylus']), 'thorough': dict(syntaxes=list(SYNTAX_FMT))}
PROP = re.compile(r'^([a-z-]+)(?:\s*:\s*([^\n\r;]+?);*)?$')


def field(index, placeholder, **kw):
    return '${%d:%s}' % (index, placeholder) if placeholder else '${%d}' % index


def canon(s):
    "innermost-first until fixpoint: drop ${n}, replace ${n:x} by x; then delete whitespace"
    prev = None
    while prev != s:
        prev = s
        s = re.sub(r'\$\{\d+:([^${}]*)\}', r'\1', s)
        s = re.sub(r'\$\{\d+\}', '', s)
    return re.sub(r'\s+', '', s)


def classify(v):
    m = PROP.match(v)
    if m:
        return ('prop', m.group(1), m.group(2).split('|') if m.group(2) else [])
    return ('raw', v)


def keywords(alts):
    "dash-free alphabetic keywords listed by a property snippet (outside strings, placeholders and function calls)"
    kws = []
    for alt in alts:
        t = re.sub(r'"[^"]*"|\'[^\']*\'', ' ', alt)
        t = re.sub(r'\$\{\d+(:[^}]*)?\}', ' ', t)
        t = re.sub(r'[\w-]+\([^)]*\)?', ' ', t)
        for w in re.findall(r'(?<![\w$#.-])([A-Za-z]+)(?![\w(.-])', t):
            if w not in kws:
                kws.append(w)
    return kws


def describe(tier):
    b = BOUNDS[tier]
    return dict(
        rule='complete enumeration: every key of Config({type: stylesheet, syntax: s}).snippets for s in %s; own key; every (key, '
             'dash-free alphabetic keyword) x forms key:kw, key-kw x lower/UPPER/Mixed case; user snippet under the same key and under '
             'a new key; scopes @@section, @@property, @@global. State = (syntax, key, probe); transition = next probe.' % b['syntaxes'],
        nontrivial='every probe (each compares a full expansion).',
        bounds=b,
        assumptions=['keywords containing `-` or digits, function-call keywords and partial/fuzzy abbreviations are left unspecified',
                     'expected and actual text are canonicalised by the same function (tabstops dropped innermost-first, whitespace deleted)'],
        explanation='The table is the specification here, so the live table is enumerated; each probe is a real emmet.expand call.',
    )


def shards(tier):
    out = []
    for syn in BOUNDS[tier]['syntaxes']:
        # every `|`-separated name of every key of the raw built-in table (split here, not by emmet), plus whatever else the
        # effective table holds
        from emmet.snippets import css as RAW
        keys = sorted(set(Config({'type': 'stylesheet', 'syntax': syn}).snippets) | set(n for k in RAW.snippets for n in k.split('|')))
        for i in range(0, len(keys), 8):
            out.append(dict(syntax=syn, keys=keys[i:i + 8]))
    return out


def ex(abbr, cfg, glob=None):
    try:
        return expand(abbr, cfg, glob) if glob is not None else expand(abbr, cfg)
    except Exception as e:
        return 'EXC:%s:%s' % (type(e).__name__, str(e)[:80])


def calls_with_arguments(alts):
    out = []
    for alt in alts:
        m = re.match(r'^([A-Za-z]+)\([^()]+\)$', alt.strip())
        if m and m.group(1) not in out:
            out.append(m.group(1))
    return out


def second_line_is(expected, cls):
    def pred(out):
        if out.startswith('EXC:'):
            return ('exception:' + out.split(':')[1], dict(output=out))
        lines = out.split('\n')
        if len(lines) != 2 or lines[1] != expected:
            return (cls, dict(expected_second_line=expected, actual=out))
    return pred


def empty_calls(alts):
    "alternatives listed as a function call without arguments, e.g. minmax(): typed by their name, written with the parentheses"
    out = []
    for alt in alts:
        m = re.match(r'^([A-Za-z]+)\(\)$', alt.strip())
        if m and m.group(1) not in out:
            out.append(m.group(1))
    return out


def probes(syn, key, val):
    """yields (probe name, abbreviation, config extras, predicate(out) -> None | (class, detail))"""
    between, after = SYNTAX_FMT[syn]
    c = classify(val)
    if c[0] == 'prop':
        own = c[1] + between + (c[2][0] if c[2] else '') + after
    else:
        own = c[1]

    def eq(expected, cls):
        def pred(out):
            if out.startswith('EXC:'):
                return ('exception:' + out.split(':')[1], dict(output=out))
            if canon(out) != canon(expected):
                return (cls, dict(expected=expected, actual=out))
        return pred

    def exact(expected, cls):
        def pred(out):
            if out != expected:
                return (cls, dict(expected=expected, actual=out))
        return pred

    def eq_nocase(expected, cls):
        def pred(out):
            if out.startswith('EXC:'):
                return ('exception:' + out.split(':')[1], dict(output=out))
            if canon(out).lower() != canon(expected).lower():
                return (cls, dict(expected=expected, actual=out))
        return pred
    yield 'own-key', key, {}, eq(own, 'own-key-selects-other-snippet')
    yield 'global-scope', key, {'context': {'name': '@@global'}}, eq(own, 'scope:global-differs')
    # an exactly typed key is a perfect match: no minimum score may reject it
    yield 'own-key-minscore-1', key, {'options': {'output.field': field, 'stylesheet.fuzzySearchMinScore': 1}}, eq(own, 'own-key-rejected-by-min-score')
    yield 'own-key-minscore-half', key, {'options': {'output.field': field, 'stylesheet.fuzzySearchMinScore': 0.5}}, eq(own, 'own-key-rejected-by-min-score')
    if c[0] == 'prop':
        for w in keywords(c[2]):
            want = c[1] + between + w + after
            for form in (key + ':' + w, key + '-' + w, key + ':' + w.upper(), key + ':' + w.capitalize(), key + '-' + w.upper()):
                yield 'keyword', form, {}, eq(want, 'keyword-not-resolved')
        for fn in calls_with_arguments(c[2]):
            # a listed function typed with an argument of its own, then again bare in the same abbreviation: the listed form is
            # what the bare one resolves to (nothing of the first use sticks to the snippet)
            alone = run_probe(syn, key + ':' + fn, {})
            yield 'keyword-call-twice', key + ':' + fn + '(7)+' + key + ':' + fn, {}, second_line_is(alone, 'keyword-arguments-stick-to-the-snippet')
        for w in empty_calls(c[2]):
            for form in (key + ':' + w, key + '-' + w, key + ':' + w.upper()):
                yield 'keyword-call', form, {}, eq(c[1] + between + w + '()' + after, 'keyword-not-resolved')
    # the violation class names the key, so that a known finding about one key never hides another key
    yield 'override', key, {'snippets': {key: 'foo-prop:bar'}}, eq('foo-prop' + between + 'bar' + after, 'user-override-ignored:key=' + key)
    yield 'override-raw', key, {'snippets': {key: 'raw ${1:body} text'}}, eq('raw body text', 'user-override-ignored:key=' + key)
    yield 'new-key', 'zzq', {'snippets': {'zzq': 'foo-prop:bar', key: val}}, eq('foo-prop' + between + 'bar' + after, 'new-key-unreachable')
    # the user-defined snippets arrive through the global configuration (type section / syntax section), also through a cache
    # that an earlier call without them has filled
    for sect in ('stylesheet', syn):
        for cached in (False, True):
            yield 'override-global', key, {'__global__': {sect: {'snippets': {key: 'foo-prop:bar'}}}, '__cached__': cached}, \
                eq('foo-prop' + between + 'bar' + after, 'user-override-ignored:key=' + key)
    yield 'new-key-global', 'zzq', {'__global__': {'stylesheet': {'snippets': {'zzq': 'foo-prop:bar'}}}, '__cached__': True}, \
        eq('foo-prop' + between + 'bar' + after, 'new-key-unreachable')
    # user-defined property snippets of other shapes: vendor-prefixed / custom property names, several listed values
    for body, prop, first, kw in (('-webkit-foo:none|auto', '-webkit-foo', 'none', 'auto'), ('--my-var:red|blue', '--my-var', 'red', 'blue'),
                                  ('foo:bar baz|qux', 'foo', 'bar baz', 'qux'), ('filter:blur()|none', 'filter', 'blur()', 'none')):
        yield 'override-shape', key, {'snippets': {key: body}}, eq(prop + between + first + after, 'user-override-ignored:key=' + key)
        yield 'new-key-shape', 'zzq', {'snippets': {'zzq': body, key: val}}, eq(prop + between + first + after, 'new-key-unreachable')
        yield 'new-key-keyword', 'zzq:' + kw, {'snippets': {'zzq': body, key: val}}, eq(prop + between + kw + after, 'new-key-keyword-not-resolved')
        yield 'new-key-property-scope', 'zzq', {'snippets': {'zzq': body, key: val}, 'context': {'name': '@@property'}}, eq(prop + between + first + after, 'scope:property-prop-unreachable')
    # a raw body with two-digit tabstop numbers, rendered by the default field callback (tabstops become their placeholders)
    yield 'new-key-raw-default-field', 'zzr', {'snippets': {'zzr': 'a ${9:x} b ${10:y} c ${0} d ${12}|', key: val}, 'options': {}}, exact('a x b y c  d |', 'raw-body-tabstops-changed')
    # a user-defined key with an underscore inside, typed exactly
    yield 'new-key-snake', 'zz_q', {'snippets': {'zz_q': 'foo-prop:bar|baz', key: val}}, eq('foo-prop' + between + 'bar' + after, 'new-key-unreachable')
    yield 'new-key-snake-raw', '@zz_q', {'snippets': {'@zz_q': 'raw ${1:body} text', key: val}}, eq('raw body text', 'new-key-unreachable')
    # a user-defined key with upper-case letters, typed exactly
    yield 'new-key-camel', 'zzQx', {'snippets': {'zzQx': 'foo-prop:bar|baz', key: val}}, eq('foo-prop' + between + 'bar' + after, 'new-key-unreachable')
    yield 'new-key-camel-keyword', 'zzQx:baz', {'snippets': {'zzQx': 'foo-prop:bar|baz', key: val}}, eq('foo-prop' + between + 'baz' + after, 'new-key-keyword-not-resolved')
    yield 'new-key-camel-raw', 'zzQx', {'snippets': {'zzQx': 'raw ${1:body} text', key: val}}, eq('raw body text', 'new-key-unreachable')
    # raw bodies are compared with their tabstops (exact text): leading, adjacent and trailing tabstops
    for body in ('${1:sel} {\n\t${0}\n}', '-moz-${1:p}${2}: ${3};', 'a ${1} b ${2:c}'):
        yield 'new-key-raw', 'zzr', {'snippets': {'zzr': body, key: val}}, exact(body, 'raw-body-tabstops-changed')

    def section(out):
        if out.startswith('EXC:'):
            return ('exception:' + out.split(':')[1], dict(output=out))
        if c[0] == 'raw':
            if canon(out) != canon(c[1]):
                return ('scope:section-raw-unreachable', dict(expected=c[1], actual=out))
        elif re.match(r'^[a-z-]+' + re.escape(between), out) and not out.startswith('@'):
            return ('scope:section-yields-property', dict(actual=out))
    yield 'section', key, {'context': {'name': '@@section'}}, section
    # ... and through a cache that a call in ANOTHER scope has filled first
    yield 'section-after-other-scope', key, {'context': {'name': '@@section'}, '__primed_scope__': '@@property'}, section

    def prop_scope(out):
        if out.startswith('EXC:'):
            return ('exception:' + out.split(':')[1], dict(output=out))
        if c[0] == 'prop':
            if canon(out) != canon(own):
                return ('scope:property-prop-unreachable', dict(expected=own, actual=out))
        elif out and canon(out) == canon(c[1]):
            return ('scope:property-yields-raw', dict(actual=out))
    yield 'property', key, {'context': {'name': '@@property'}}, prop_scope
    yield 'property-after-other-scope', key, {'context': {'name': '@@property'}, '__primed_scope__': '@@section'}, prop_scope
    yield 'own-key-after-scoped-call', key, {'__primed_scope__': '@@section'}, eq(own, 'own-key-selects-other-snippet')
    # `+`-joined under a scope: each part resolves exactly as it does alone, whatever the order of the keys
    other = 'm' if c[0] == 'prop' else '@kf'
    scope = '@@property' if c[0] == 'prop' else '@@section'
    if key != other:
        a1 = run_probe(syn, key, {'context': {'name': scope}})
        a2 = run_probe(syn, other, {'context': {'name': scope}})
        yield 'scope-joined', key + '+' + other, {'context': {'name': scope}}, exact(a1 + '\n' + a2, 'scope:joined-parts-differ-from-alone')
        yield 'scope-joined', other + '+' + key, {'context': {'name': scope}}, exact(a2 + '\n' + a1, 'scope:joined-parts-differ-from-alone')


def run_probe(syn, abbr, extra):
    cfg = {'type': 'stylesheet', 'syntax': syn, 'options': {'output.field': field}}
    extra = dict(extra)
    glob = extra.pop('__global__', None)
    primed = extra.pop('__primed_scope__', None)
    if primed:
        cache = {}
        ex(abbr, dict(cfg, cache=cache, context={'name': primed}))
        cfg['cache'] = cache
    if extra.pop('__cached__', False):
        # through a cache that a call without the user-defined snippets has filled first
        cache = {}
        ex(abbr, dict(cfg, cache=cache))
        cfg['cache'] = cache
    cfg.update(extra)
    return ex(abbr, cfg, glob)


def run_shard(shard, ctx, tier):
    syn = shard['syntax']
    table = Config({'type': 'stylesheet', 'syntax': syn}).snippets
    from emmet.snippets import css as RAW
    raw = dict((n, v) for k, v in RAW.snippets.items() for n in k.split('|'))
    val = ''
    for key in shard['keys']:
        if table.get(key, '<absent>') != raw.get(key, table.get(key)):
            ctx.violation('listed-name-not-in-the-effective-table', dict(syntax=syn, key=key, probe='raw-name', abbr=key),
                          dict(expected=raw.get(key), actual=table.get(key, '<absent>')))
        if key not in table:
            continue
        val = table[key]
        for name, abbr, extra, pred in probes(syn, key, val):
            ctx.tick((syn, key, name, abbr))
            ctx.states += 1
            ctx.transitions += 1
            ctx.evals += 1
            ctx.validated += 1
            ctx.nontrivial += 1
            out = run_probe(syn, abbr, extra)
            ctx.outcome((name, canon(out)[:40]))
            bad = pred(out)
            if bad:
                cls = bad[0]
                ctx.violation(cls, dict(syntax=syn, key=key, probe=name, abbr=abbr), bad[1])
    ctx.sample(dict(syntax=syn, key=key, definition=val[:60]))


def check_case(case):
    syn, key = case['syntax'], case['key']
    table = Config({'type': 'stylesheet', 'syntax': syn}).snippets
    out = []
    if case['probe'] == 'raw-name':
        from emmet.snippets import css as RAW
        raw = dict((n, v) for k, v in RAW.snippets.items() for n in k.split('|'))
        if table.get(key, '<absent>') != raw.get(key, table.get(key)):
            return [('listed-name-not-in-the-effective-table', dict(expected=raw.get(key), actual=table.get(key, '<absent>')))]
        return []
    for name, abbr, extra, pred in probes(syn, key, table[key]):
        if name == case['probe'] and abbr == case['abbr']:
            bad = pred(run_probe(syn, abbr, extra))
            if bad:
                out.append(bad)
    return out


def repro(case):
    return 'from emmet import expand\nprint(expand(%r, {"type": "stylesheet", "syntax": %r}))  # probe: %s\n' % (
        case['abbr'], case['syntax'], case['probe'])
