"""C17  Editor action helpers select exactly the tag, attribute and property parts.

The C09 / C10 document generators (extended attribute and declaration menus with recorded class tokens and value
tokens, last declaration with and without `;`) x every position, on get_open_tag, select_item_html, get_css_section
and select_item_css.  Oracle: generator ground truth.
"""
from emmet.action_utils import get_open_tag, select_item_html, get_css_section, select_item_css
from mc.ref import htmldoc as HD, cssdoc as CD

ID = 'C17'

BOUNDS = {
    'quick': dict(html_plain=2, html_attrs=2, css_nodes=4, rotations=9),
    'thorough': dict(html_plain=4, html_attrs=3, css_nodes=5, rotations=9),
}
NSH = 48
ATTRS = HD.ATTR_SETS + HD.ATTR_SETS_ACTIONS


def describe(tier):
    b = BOUNDS[tier]
    assert b['rotations'] >= len(CD.DECLS_TOKENS), 'every entry of the declaration menu must lead a rotation'
    return dict(
        rule='HTML: all forests with <= %d nodes, and all forests with <= %d nodes in which one element at a time carries one of %d '
             'attribute sets (class token lists, empty values, expressions, valueless); CSS: all forests with <= %d nodes, declaration '
             'menu with recorded value tokens %s in %d rotations, layouts compact and spaced, last declaration of a body with and '
             'without `;`; x every position 0..len, both directions of select_item_*; select_item_html also with its options argument (empty `special` table on documents whose bare <script> has markup children; the defaults spelled out); get_css_section also on every stylesheet with a stray `}` typed in front of its last top-level rule, and (weak oracle) on stylesheets with value-less statements. Transition = caret +1 / one more node.' % (
                 b['html_plain'], b['html_attrs'], len(ATTRS), b['css_nodes'], [d[:2] for d in CD.DECLS_TOKENS], b['rotations']),
        nontrivial='the helper is expected to return something at that position.',
        bounds=b,
        assumptions=['the checked calls at every fourth position are preceded by calls on %d ill-formed HTML / %d ill-formed CSS '
                     'sources: history must not matter' % (len(POISON_HTML), len(POISON_CSS)),
                     'get_open_tag inside a closing tag, next/previous inside a tag or an item head, and inclusive boundaries of '
                     'get_css_section are left unspecified'],
        explanation='Every (document, position) is given to the real helpers and compared with the generator ground truth.',
    )


def shards(tier):
    return [dict(lang='html', k=k, of=NSH) for k in range(NSH)] + [dict(lang='css', k=k, of=NSH) for k in range(NSH)]


def html_docs(tier):
    b = BOUNDS[tier]
    for n in range(1, b['html_plain'] + 1):
        for f in HD.forests(n, HD.LEAVES_SMALL + ['style'], HD.PAIRED):
            yield f
    for n in range(1, b['html_attrs'] + 1):
        for f in HD.forests(n, ['br', 'x/', 'y /', 'comment', 'text'], HD.PAIRED[:2]):
            for path in HD.element_paths(f):
                for aset in ATTRS:
                    yield HD.with_attrs(f, path, aset)


def css_docs(tier):
    "yields (shape, rotation, layout, last declaration without `;`, statement menu?)"
    b = BOUNDS[tier]
    for n in range(1, b['css_nodes'] + 1):
        for sh in CD.shapes(n, 3):
            for rot in range(b['rotations']):
                for lay in ('compact', 'spaced'):
                    yield sh, rot, lay, False, False
                    if has_last_decl(sh):
                        yield sh, rot, lay, True, False
            if n <= b['css_nodes'] - 1:
                for rot in range(len(CD.DECLS_WITH_STATEMENT)):
                    yield sh, rot, 'compact', False, True


def has_last_decl(sh):
    return any(n[0] == 'R' and ((n[1] and n[1][-1][0] == 'D') or has_last_decl(n[1])) for n in sh)


# ---------------------------------------------------------------- HTML oracle
def unquoted(raw, vs, ve):
    if raw[0] in '"\'':
        return (vs + 1, ve - (1 if raw[-1] == raw[0] and len(raw) > 1 else 0))
    if raw[0] == '{' and raw[-1] == '}':
        return (vs + 1, ve - 1)
    return (vs, ve)


def tokens_of(text, offset):
    out = []
    i = 0
    n = len(text)
    while i < n:
        while i < n and text[i] in ' \t\r\n':
            i += 1
        j = i
        while j < n and text[j] not in ' \t\r\n':
            j += 1
        if j > i:
            out.append((offset + i, offset + j))
        i = j
    return out


def push(ranges, r):
    if r[0] != r[1] and (not ranges or ranges[-1] != r):
        ranges.append(r)


def tag_model(text, e):
    s, en = e['open']
    ranges = [(s + 1, s + 1 + len(e['name']))]
    for (an, ns, ne, raw, vs, ve) in e['attrs']:
        if raw is None:
            push(ranges, (ns, ne))
        else:
            push(ranges, (ns, ve))
            u = unquoted(raw, vs, ve)
            if u[0] != u[1]:
                push(ranges, u)
                if an == 'class':
                    for t in tokens_of(text[u[0]:u[1]], u[0]):
                        push(ranges, t)
    return (s, en, ranges)


def model_tuple(m):
    return (m.start, m.end, [tuple(r) for r in m.ranges]) if m is not None else None


# calls on ill-formed sources made before the checked calls at every fourth position: nothing of them may survive
# the documented defaults of the scanner options, spelled out (frozen here, not read from the library)
DEFAULT_EMPTY = ['img', 'meta', 'link', 'br', 'base', 'hr', 'area', 'wbr', 'col', 'embed', 'input', 'param', 'source', 'track']
DEFAULT_SPECIAL = {'style': None, 'script': ['', 'text/javascript', 'application/x-javascript', 'javascript', 'typescript', 'ts', 'coffee', 'coffeescript']}
POISON_HTML = [('<div class="a b', 7), ('<p><!-- x', 5), ('<a><script>if (a<b) <i>', 14), ("<e class='x y' f=", 4)]
POISON_CSS = [('.hero { width: calc(100% - ', 20), ('a { color: 0, 0, 0, .5); }', 6), ('a { b: "x', 8), ('a { /* x', 7), ('a { b: url(c;d', 9)]


def poison_html():
    for text, p in POISON_HTML:
        for f in (lambda: get_open_tag(text, p), lambda: select_item_html(text, p), lambda: select_item_html(text, p, True)):
            try:
                f()
            except Exception:
                pass


def poison_css():
    for text, p in POISON_CSS:
        for f in (lambda: get_css_section(text, p, True), lambda: select_item_css(text, p), lambda: select_item_css(text, p, True)):
            try:
                f()
            except Exception:
                pass


def check_html_pos(text, elements, p, options=None):
    if options is not None:
        # select_item_html with an options argument: the document was emitted for exactly these options (an empty `special`
        # table makes a bare <script> an ordinary element; `empty: []` would make <br> a paired tag - not generated)
        bad = []
        if any(e['open'][0] < p < e['open'][1] for e in elements):
            return bad
        tags = sorted(elements, key=lambda e: e['open'][0])
        nxt = [e for e in tags if e['open'][1] > p]
        prv = [e for e in tags if e['open'][0] < p]
        for is_prev, cand in ((False, nxt[:1]), (True, prv[-1:])):
            try:
                m = select_item_html(text, p, is_prev, dict(options))
            except Exception as ex:
                bad.append(('select_item_html:options:exception:%s' % type(ex).__name__, str(ex)[:100]))
                continue
            exp = tag_model(text, cand[0]) if cand else None
            if model_tuple(m) != exp:
                bad.append(('select_item_html:options:%s' % ('previous' if is_prev else 'next'), dict(options=options, expected=exp, got=model_tuple(m))))
        return bad
    if p % 4 == 0:
        poison_html()
    bad = []
    inside = [e for e in elements if e['open'][0] < p < e['open'][1]]
    in_close = any(e['close'] and e['close'][0] < p < e['close'][1] for e in elements)
    try:
        t = get_open_tag(text, p)
    except Exception as ex:
        return [('get_open_tag:exception:%s' % type(ex).__name__, str(ex)[:100])]
    if inside:
        e = inside[0]
        if t is None:
            bad.append(('get_open_tag:none-inside-open-tag', dict(expected=(e['name'],) + tuple(e['open']))))
        else:
            got_attrs = [(a.name, a.name_start, a.name_end, a.value, a.value_start, a.value_end) for a in (t.attributes or [])]
            if (t.name, t.start, t.end) != (e['name'],) + tuple(e['open']):
                bad.append(('get_open_tag:wrong-tag', dict(expected=(e['name'],) + tuple(e['open']), got=(t.name, t.start, t.end))))
            elif got_attrs != [tuple(a) for a in e['attrs']]:
                bad.append(('get_open_tag:attribute-ranges', dict(expected=e['attrs'], got=got_attrs)))
    elif not in_close and t is not None:
        bad.append(('get_open_tag:tag-where-none-contains-position', dict(got=(t.name, t.start, t.end))))
    if not inside:
        tags = sorted(elements, key=lambda e: e['open'][0])
        nxt = [e for e in tags if e['open'][1] > p]
        prv = [e for e in tags if e['open'][0] < p]
        for is_prev, cand in ((False, nxt[:1]), (True, prv[-1:])):
            try:
                m = select_item_html(text, p, is_prev)
            except Exception as ex:
                bad.append(('select_item_html:exception:%s' % type(ex).__name__, str(ex)[:100]))
                continue
            exp = tag_model(text, cand[0]) if cand else None
            if model_tuple(m) != exp:
                sub = 'ranges' if (m is not None and exp is not None and (m.start, m.end) == exp[:2]) else 'tag'
                bad.append(('select_item_html:%s:%s' % ('previous' if is_prev else 'next', sub), dict(expected=exp, got=model_tuple(m))))
    return bad


def stray_brace_variant(text, nodes):
    """The same stylesheet with a stray `}` typed in front of its last top-level rule (a half-edited file): the rule is still
    the section of every position inside it, at the shifted offsets.  -> (class, detail, position in the original text)"""
    rules_ = [n for n in nodes if n['kind'] == 'rule']
    tops = [n for n in rules_ if not any(o is not n and o['start'] < n['start'] and n['end'] <= o['end'] for o in rules_)]
    if not tops:
        return []
    last = max(tops, key=lambda n: n['start'])
    ins = '} '
    text2 = text[:last['start']] + ins + text[last['start']:]
    inner = [n for n in nodes if n['kind'] == 'rule' and last['start'] <= n['start'] and n['end'] <= last['end']]
    bad = []
    for p in range(last['start'] + 1, last['end']):
        if any(p == r['start'] or p == r['end'] for r in inner):
            continue
        enc = sorted((r for r in inner if r['start'] < p < r['end']), key=lambda r: r['end'] - r['start'])
        r = enc[0]
        exp = tuple(x + len(ins) for x in (r['start'], r['end'], r['body'][0], r['body'][1]))
        try:
            sec = get_css_section(text2, p + len(ins), True)
        except Exception as ex:
            bad.append(('get_css_section:stray-brace:exception:%s' % type(ex).__name__, str(ex)[:100], p))
            break
        got = None if sec is None else (sec.start, sec.end, sec.body_start, sec.body_end)
        if got != exp:
            bad.append(('get_css_section:stray-brace:wrong-section', dict(text=text2, expected=exp, got=got), p))
            break
    return bad


# ---------------------------------------------------------------- CSS oracle
def decl_model(n):
    ranges = []
    push(ranges, (n['start'], n['end']))
    push(ranges, n['value'])
    for t in n.get('tokens', []):
        push(ranges, t)
    return (n['start'], n['end'], ranges)


def sel_model(n):
    return (n['sel'][0], n['sel'][1], [tuple(n['sel'])])


def check_css_pos(text, nodes, p):
    if p % 4 == 0:
        poison_css()
    bad = []
    rules = [n for n in nodes if n['kind'] == 'rule']
    has_stmt = any(n['kind'] == 'stmt' for n in nodes)
    # get_css_section (documents with value-less statements: only select_item_* is specified)
    if not has_stmt and not any(p == r['start'] or p == r['end'] for r in rules):
        enc = [r for r in rules if r['start'] < p < r['end']]
        enc.sort(key=lambda r: r['end'] - r['start'])
        try:
            sec = get_css_section(text, p, True)
        except Exception as ex:
            return [('get_css_section:exception:%s' % type(ex).__name__, str(ex)[:100])]
        if not enc:
            if sec is not None:
                bad.append(('get_css_section:section-where-none-contains-position', sec.to_json()))
        else:
            r = enc[0]
            exp = (r['start'], r['end'], r['body'][0], r['body'][1])
            if sec is None:
                bad.append(('get_css_section:none-inside-rule', dict(expected=exp)))
            elif (sec.start, sec.end, sec.body_start, sec.body_end) != exp:
                bad.append(('get_css_section:not-innermost-or-wrong-ranges', dict(expected=exp, got=(sec.start, sec.end, sec.body_start, sec.body_end))))
            else:
                idx = nodes.index(r)
                before = r['body'][0]
                want = []
                for ci in r['children']:
                    c = nodes[ci]
                    if c['kind'] == 'decl':
                        want.append(dict(name=tuple(c['name']), value=tuple(c['value']), tokens=c.get('tokens'),
                                         before=before, after=c['end']))
                    before = c['end']
                got = sec.properties or []
                if len(got) != len(want):
                    bad.append(('get_css_section:property-count', dict(expected=len(want), got=len(got))))
                else:
                    for g, w_ in zip(got, want):
                        if tuple(g.name) != w_['name'] or tuple(g.value) != w_['value']:
                            bad.append(('get_css_section:property-name-or-value-range', dict(expected=w_, got=g.to_json())))
                        elif w_['tokens'] is not None and [tuple(t) for t in g.value_tokens] != w_['tokens']:
                            bad.append(('get_css_section:value-tokens', dict(expected=w_['tokens'], got=g.value_tokens)))
                        elif g.before != w_['before']:
                            bad.append(('get_css_section:before-offset', dict(expected=w_['before'], got=g.before, prop=g.to_json())))
                        elif g.after != w_['after']:
                            bad.append(('get_css_section:after-offset', dict(expected=w_['after'], got=g.after, prop=g.to_json())))
    if has_stmt and not any(p == r['start'] or p == r['end'] for r in rules):
        # documents with value-less statements (`@include x;`): whether such a statement is listed among the properties is left
        # open, but every real declaration must be listed with its exact name and value ranges, in order, and an entry that is
        # no declaration must be exactly one of the statements (name = the statement, empty value)
        enc = [r for r in rules if r['start'] < p < r['end']]
        enc.sort(key=lambda r: r['end'] - r['start'])
        try:
            sec = get_css_section(text, p, True)
        except Exception as ex:
            return [('get_css_section:exception:%s' % type(ex).__name__, str(ex)[:100])]
        if enc and sec is not None and (sec.start, sec.end) == (enc[0]['start'], enc[0]['end']):
            kids = [nodes[ci] for ci in enc[0]['children']]
            decls = [c for c in kids if c['kind'] == 'decl']
            stmts = {tuple(c['name']) for c in kids if c['kind'] == 'stmt'}
            di = 0
            for g in sec.properties or []:
                if di < len(decls) and tuple(g.name) == tuple(decls[di]['name']):
                    if tuple(g.value) != tuple(decls[di]['value']):
                        bad.append(('get_css_section:property-name-or-value-range', dict(expected=decls[di]['value'], got=g.to_json())))
                        break
                    di += 1
                elif tuple(g.name) in stmts and g.value[0] == g.value[1]:
                    continue
                else:
                    bad.append(('get_css_section:property-that-is-neither-a-declaration-nor-a-statement', dict(got=g.to_json(),
                                next_declaration=decls[di]['name'] if di < len(decls) else None)))
                    break
            else:
                if di != len(decls):
                    bad.append(('get_css_section:property-count', dict(expected=len(decls), got=di)))
        elif enc and sec is None:
            bad.append(('get_css_section:none-inside-rule', dict(expected=(enc[0]['start'], enc[0]['end']))))
    # select_item_css
    items = sorted(nodes, key=lambda n: n['start'])
    in_head = any((n['kind'] in ('decl', 'stmt') and n['start'] < p < n['end']) or (n['kind'] == 'rule' and n['sel'][0] < p < n['sel'][1])
                  for n in nodes)

    def model(n):
        if n['kind'] == 'stmt':
            return (n['name'][0], n['name'][1], [tuple(n['name'])])
        return decl_model(n) if n['kind'] == 'decl' else sel_model(n)
    if not in_head:
        nxt = [n for n in items if n['start'] >= p]
        if nxt and nxt[0]['kind'] == 'stmt':
            nxt = None      # whether "next" stops at a value-less statement is left unspecified (only "previous" is checked for them)
        try:
            m = select_item_css(text, p, False)
        except Exception as ex:
            bad.append(('select_item_css:exception:%s' % type(ex).__name__, str(ex)[:100]))
            m = 'EXC'
        if m != 'EXC' and nxt is not None:
            exp = model(nxt[0]) if nxt else None
            if exp is not None and 'tokens' not in nxt[0] and nxt[0]['kind'] == 'decl':
                # value tokens not recorded for this declaration text: compare full and value range only
                got = model_tuple(m)
                if got is None or got[:2] != exp[:2] or got[2][:len(exp[2])] != exp[2]:
                    bad.append(('select_item_css:next', dict(expected=exp, got=got)))
            elif model_tuple(m) != exp:
                bad.append(('select_item_css:next', dict(expected=exp, got=model_tuple(m))))
    prv = [n for n in items if n['start'] < p]
    if not any(n['kind'] == 'rule' and n['sel'][0] < p < n['sel'][1] for n in nodes):
        try:
            m = select_item_css(text, p, True)
        except Exception as ex:
            bad.append(('select_item_css:exception:%s' % type(ex).__name__, str(ex)[:100]))
            return bad
        exp = model(prv[-1]) if prv else None
        got = model_tuple(m)
        if exp is not None and prv[-1]['kind'] == 'decl' and 'tokens' not in prv[-1]:
            if got is None or got[:2] != exp[:2] or got[2][:len(exp[2])] != exp[2]:
                bad.append(('select_item_css:previous', dict(expected=exp, got=got)))
        elif got != exp:
            bad.append(('select_item_css:previous', dict(expected=exp, got=got)))
    return bad


def run_shard(shard, ctx, tier):
    k, of = shard['k'], shard['of']
    text = None
    if shard['lang'] == 'html':
        for idx, forest in enumerate(html_docs(tier)):
            if idx % of != k:
                continue
            text, elements = HD.emit(forest, False)
            ctx.states += 1
            for p in range(len(text) + 1):
                ctx.tick((text, p))
                ctx.transitions += 1
                ctx.evals += 3
                ctx.validated += 1
                if any(e['open'][0] < p < e['open'][1] for e in elements):
                    ctx.nontrivial += 1
                    ctx.skip('select next/previous with the caret strictly inside an open tag')
                for cls, d in check_html_pos(text, elements, p):
                    ctx.violation(cls, dict(lang='html', forest=forest, pos=p, text=text), d)
            ctx.outcome(('html', len(elements), len(text)))
            if HD.uses_kind(forest, 'tpl') and not any(HD.uses_kind(forest, k_) for k_ in ('script', 'style', 'script/')):
                # the options argument: a bare <script> with markup children, read with an empty `special` table (an empty table
                # is a table), and the same document under the default options spelled out
                text2, elements2 = HD.emit(forest, False, None, True)
                for p in range(len(text2) + 1):
                    ctx.transitions += 1
                    ctx.evals += 2
                    ctx.validated += 1
                    for cls, d in check_html_pos(text2, elements2, p, {'special': {}}):
                        ctx.violation(cls, dict(lang='html', forest=forest, pos=p, text=text2, options={'special': {}}), d)
            elif idx % 3 == 0:
                dflt = {'xml': False, 'empty': list(DEFAULT_EMPTY), 'special': dict(DEFAULT_SPECIAL)}
                for p in range(len(text) + 1):
                    ctx.transitions += 1
                    ctx.evals += 2
                    ctx.validated += 1
                    for cls, d in check_html_pos(text, elements, p, dflt):
                        ctx.violation(cls, dict(lang='html', forest=forest, pos=p, text=text, options='defaults spelled out'), d)
        if text:
            ctx.sample(dict(document=text))
        return
    for idx, (sh, rot, lay, nosemi, stmts) in enumerate(css_docs(tier)):
        if idx % of != k:
            continue
        text, nodes = CD.emit(sh, rot, lay, CD.DECLS_WITH_STATEMENT if stmts else CD.DECLS_TOKENS, nosemi)
        ctx.states += 1
        for p in range(len(text) + 1):
            ctx.tick((text, p))
            ctx.transitions += 1
            ctx.evals += 3
            ctx.validated += 1
            if nodes:
                ctx.nontrivial += 1
            for cls, d in check_css_pos(text, nodes, p):
                ctx.violation(cls, dict(lang='css', shape=sh, rotation=rot, layout=lay, last_without_semicolon=nosemi, statements=stmts,
                                        pos=p, text=text), d)
        ctx.outcome(('css', len(nodes), len(text)))
        for cls, d, p in stray_brace_variant(text, nodes):
            ctx.violation(cls, dict(lang='css', shape=sh, rotation=rot, layout=lay, last_without_semicolon=nosemi, statements=stmts,
                                    pos=p, text=text, stray_brace=True), d)
        ctx.evals += 1
    if text:
        ctx.sample(dict(stylesheet=text))


def _untuple(f):
    return [(k_, _untuple(ch), [tuple(a) for a in attrs]) for k_, ch, attrs in f]


def _tup(sh):
    return [('R', _tup(n[1])) if n[0] == 'R' else (n[0],) for n in sh]


def check_case(case):
    if case['lang'] == 'html' and case.get('options') == {'special': {}}:
        text, elements = HD.emit(_untuple(case['forest']), False, None, True)
        return check_html_pos(text, elements, case['pos'], {'special': {}})
    if case['lang'] == 'html' and case.get('options'):
        text, elements = HD.emit(_untuple(case['forest']), False)
        return check_html_pos(text, elements, case['pos'], {'xml': False, 'empty': list(DEFAULT_EMPTY), 'special': dict(DEFAULT_SPECIAL)})
    if case['lang'] == 'html':
        text, elements = HD.emit(_untuple(case['forest']), False)
        return check_html_pos(text, elements, case['pos'])
    text, nodes = CD.emit(_tup(case['shape']), case['rotation'], case['layout'],
                          CD.DECLS_WITH_STATEMENT if case.get('statements') else CD.DECLS_TOKENS, case['last_without_semicolon'])
    if case.get('stray_brace'):
        return [(c, d) for c, d, _ in stray_brace_variant(text, nodes)]
    return check_css_pos(text, nodes, case['pos'])


def repro(case):
    if case['lang'] == 'html' and case.get('options') == {'special': {}}:
        return 'from emmet.action_utils import select_item_html\ns = %r\nprint(select_item_html(s, %d, False, {"special": {}}).to_json())\n' % (case['text'], case['pos'])
    if case['lang'] == 'html':
        return 'from emmet.action_utils import get_open_tag, select_item_html\ns = %r\nt = get_open_tag(s, %d)\nprint(t and t.to_json())\nprint(select_item_html(s, %d).to_json())\n' % (
            case['text'], case['pos'], case['pos'])
    return 'from emmet.action_utils import get_css_section, select_item_css\ns = %r\nsec = get_css_section(s, %d, True)\nprint(sec and sec.to_json())\nprint(select_item_css(s, %d).to_json())\n' % (
        case['text'], case['pos'], case['pos'])
