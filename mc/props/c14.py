"""C14  A snippet alias expands exactly like its definition, and resolution ends.

Finite part (complete in both tiers): every key of the built-in markup snippet tables (html, xsl, pug) x contexts, alias
vs. definition by textual substitution (exact string equality), default and reverseAttributes.  User tables (E2): all
tables over three names with definitions from a menu, cyclic tables included: resolution terminates, nests no deeper
than the number of snippets (resolve frames counted with sys.setprofile), and for acyclic tables alias == definition.
"""
import re, sys, itertools
from emmet import expand
from emmet.config import Config

ID = 'C14'

SIMPLE = re.compile(r'^[\w:!-]+(\[[^\]]*\])?/?$')
TEXT_TAIL = re.compile(r'(^|[>+^(])\{([^{}]|\{[^{}]*\})*\}\)*$')
NAMES = ['ka', 'kb', 'kc']
DEFS = ['ka', 'kb', 'kc', 'ka>kb', 'kb+kc', 'kc>ka', '(ka+kb)*2', 'ka[x]', 'x', 'x>y']
BOUNDS = {'quick': dict(defs=DEFS[:7] + ['x'], start=NAMES[:2]), 'thorough': dict(defs=DEFS, start=NAMES)}


def describe(tier):
    b = BOUNDS[tier]
    return dict(
        rule='Built-in tables: every `|`-separated name of every raw key is in the effective table with its value; every key of Config({syntax: s}).snippets for s in html, xsl, pug x contexts [., .>k, p>., p>.+q, (.)*2] and, '
             'for simple definitions name[attrs]/?, [..x, .[data-k=v], .{t}, .*2>k, ./] x {default, reverseAttributes, a call config that restates one variable and one option}: '
             'expand(C[alias]) == expand(C[(definition)]). User tables: all %d^3 tables {ka, kb, kc} -> definitions %s x start names %s: '
             'terminates, resolve nesting <= 3 (+1 for the call that hits the guard / a non-snippet), alias == definition when acyclic, and for every table '
             '(cyclic ones too) expand(A+B) = expand(A) expand(B), expand(p>A+B) = <p>..</p> for every pair of names. '
             'Simple definitions also: the same alias twice, bare and attributed, in both orders. Malformed definitions behind another alias (%d inner x %d outer definitions x 4 contexts): alias and definition in place give the same result or the same parse error. Transition = next context / next table entry.' % (len(b['defs']), b['defs'], b['start'], len(MALFORMED_INNER), len(MALFORMED_OUTER)),
        nontrivial='every alias/definition pair (two expansions compared) and every user table.',
        bounds=b,
        assumptions=['equality for cyclic tables, text/repeater extras on multi-element definitions, and children appended to an alias whose '
                     'definition ends in a text-only node are left unspecified'],
        explanation='The built-in tables are the specification and are enumerated completely; user tables are enumerated exhaustively over the menu.',
        case_time_limit=20.0,
    )


# user snippets with several top-level elements: attributes written on the alias go to every top-level element
MULTI_DEFS = [[('x', '.p'), ('y', '.q')], [('x', ''), ('y', '')], [('x', '[t=1]'), ('y', '.q[t=2]')], [('x', '.p'), ('y', '.q'), ('z', '#i')],
              [('x', '[class]'), ('y', '[class]')], [('x', '[class]'), ('y', '')], [('x', '[t]'), ('y', '[t class=""]')]]
MULTI_EXTRAS = ['.z', '[t=3]', '.z.w', '#j.z', '[u=4].z', '{t}', '/', '.z{t}', '[t=3]/']


def check_multi(defn, extra, rev, repeat):
    table = {'ka': '+'.join(n + a for n, a in defn)}
    alias = 'ka' + extra + ('*2' if repeat else '')
    # text and the self-closing mark follow the attributes of the element they are applied to
    m_ = re.match(r'^((?:[.#][\w-]+|\[[^\]]*\])*)(\{[^}]*\})?(/)?$', extra)
    eattr, etail = m_.group(1), (m_.group(2) or '') + (m_.group(3) or '')
    if rev:
        body = '+'.join(n + eattr + a + etail for n, a in defn)
    else:
        body = '+'.join(n + a + eattr + etail for n, a in defn)
    definition = '(%s)*2' % body if repeat else body
    cfg = {'snippets': table, 'options': {'output.format': False, 'output.reverseAttributes': rev}}
    r1 = ex(alias, cfg)
    r2 = ex(definition, {'options': dict(cfg['options'])})
    if r1 != r2:
        return [('user-table:alias-attributes-on-several-top-level-elements', dict(table=table, alias=alias, definition=definition,
                                                                                 reverse=rev, alias_output=r1, definition_output=r2))]
    return []


def raw_names():
    "(syntax, name, raw value) for every `|`-separated name of every key of the raw built-in tables (split here, not by emmet)"
    from emmet.snippets import html as H_, xsl as X_, pug as P_
    for syn, mod in (('html', H_), ('xsl', X_), ('pug', P_)):
        for k, v in mod.snippets.items():
            for name in k.split('|'):
                yield syn, name, v


def check_raw_name(syn, name, value):
    got = Config({'syntax': syn}).snippets.get(name, '<absent>')
    if got != value:
        return [('builtin:listed-name-not-in-the-effective-table', dict(syntax=syn, name=name, expected=value, actual=got))]
    return []


BEM_EXTRAS = ['.-e', '.-e_m', '._m', '.-e.z', '.-e[t=1]']


def check_bem_multi(defn, extra):
    "BEM shorthands written on an alias with several top-level elements, under a block parent: as on the elements themselves"
    table = {'ka': '+'.join(n + a for n, a in defn)}
    o = {'bem.enabled': True, 'output.format': False}
    r1 = ex('d.b>ka' + extra, {'snippets': table, 'options': dict(o)})
    r2 = ex('d.b>' + '+'.join(n + a + extra for n, a in defn), {'options': dict(o)})
    if r1 != r2:
        return [('user-table:bem-shorthand-on-an-alias-with-several-top-level-elements', dict(table=table, extra=extra, alias_output=r1, definition_output=r2))]
    return []


def shards(tier):
    out = [dict(kind='multi'), dict(kind='raw-names')]
    for syn in ('html', 'xsl', 'pug'):
        keys = sorted(Config({'syntax': syn}).snippets)
        for i in range(0, len(keys), 12):
            out.append(dict(kind='builtin', syntax=syn, keys=keys[i:i + 12]))
    nd = len(BOUNDS[tier]['defs'])
    for a in range(nd):
        out.append(dict(kind='user', a=a))
    return out


def ex(abbr, cfg):
    try:
        return expand(abbr, cfg)
    except RecursionError:
        return ('EXC', 'RecursionError')
    except Exception as e:
        return ('EXC', type(e).__name__, str(e)[:60])


def builtin_pairs(key, D):
    """yields (context name, alias abbreviation, definition abbreviation, reverse-only?)"""
    text_tail = bool(TEXT_TAIL.search(D))
    yield 'alone', key, '(%s)' % D
    yield 'as-child', 'p>' + key, 'p>(%s)' % D
    yield 'as-child-with-sibling', 'p>%s+q' % key, 'p>(%s)+q' % D
    yield 'repeated-group', '(%s)*2' % key, '((%s))*2' % D
    if not text_tail:
        yield 'with-child', key + '>k', D + '>k'


def simple_pairs(key, D, rev):
    core = D[:-1] if D.endswith('/') else D
    tail = '/' if D.endswith('/') else ''
    m = re.match(r'^([\w:!-]+)(\[[^\]]*\])?$', core)
    name, own = m.group(1), m.group(2) or ''
    for extra in ('.x', '[data-k=v]'):
        if rev:
            yield 'extra-attr' + extra, key + extra, name + extra + own + tail
        else:
            yield 'extra-attr' + extra, key + extra, core + extra + tail
    yield 'extra-text', key + '{t}', core + '{t}' + tail
    yield 'extra-repeat-child', key + '*2>k', core + tail + '*2>k'
    yield 'extra-selfclose', key + '/', core + '/'
    yield 'extra-all', key + '#i{t}*2', (name + '#i' + own if rev else core + '#i') + '{t}' + tail + '*2'
    if not tail:
        yield 'nested-in-itself', key + '>' + key, core + '>' + core
        yield 'nested-in-itself-deeper', key + '>p>' + key + '.x', core + '>p>' + (name + '.x' + own if rev else core + '.x')
    yield 'sibling-of-itself', key + '+' + key, core + tail + '+' + core + tail
    # the same alias twice in one abbreviation, bare and with an attribute of its own, in both orders
    withx = (name + '.x' + own if rev else core + '.x') + tail
    yield 'bare-then-attributed', key + '+' + key + '.x', core + tail + '+' + withx
    yield 'attributed-then-bare', key + '.x+' + key, withx + '+' + core + tail


class Depth:
    "maximum number of simultaneously active resolve() frames of emmet/markup/snippets.py"

    def __init__(self):
        self.cur = 0
        self.max = 0

    def __call__(self, frame, event, arg):
        co = frame.f_code
        if co.co_name == 'resolve' and co.co_filename.replace('\\', '/').endswith('markup/snippets.py'):
            if event == 'call':
                self.cur += 1
                if self.cur > self.max:
                    self.max = self.cur
            elif event == 'return':
                self.cur -= 1


def refs(defn):
    return [n for n in NAMES if re.search(r'(?<![\w])%s(?![\w])' % n, defn)]


def cyclic_from(table, start):
    seen = set()
    stack = [(start, (start,))]
    while stack:
        n, path = stack.pop()
        for r in refs(table[n]):
            if r in path:
                return True
            stack.append((r, path + (r,)))
    return False


def check_user(table, start):
    bad = []
    cfg = {'snippets': dict(table), 'options': {'output.format': False}}
    d = Depth()
    sys.setprofile(d)
    try:
        ra = ex(start, cfg)
    finally:
        sys.setprofile(None)
    if isinstance(ra, tuple):
        bad.append(('user-table:exception:%s' % ra[1], dict(table=table, start=start, error=ra)))
        return bad, d.max
    if d.max > len(table) + 1:
        bad.append(('user-table:resolution-nests-deeper-than-the-number-of-snippets', dict(table=table, start=start, depth=d.max)))
    # context independence (also for cyclic tables): what an alias expands to does not depend on what was resolved before it in
    # the same abbreviation, and siblings / a parent do not change it
    for other in sorted(table):
        ro = ex(other, dict(cfg))
        if isinstance(ro, tuple):
            continue
        for name, a, want in (('sibling-after', '%s+%s' % (other, start), ro + ra), ('sibling-before', '%s+%s' % (start, other), ra + ro),
                              ('under-parent', 'p>%s+%s' % (other, start), '<p>' + ro + ra + '</p>')):
            r = ex(a, dict(cfg))
            if r != want:
                bad.append(('user-table:alias-depends-on-its-context:%s' % name, dict(table=table, abbr=a, actual=r, expected=want)))
    # the caller edits its own table in place between two calls: the alias follows the new definition
    if table[start] != 'x>y':
        edited = dict(table)
        edited[start] = 'x>y'
        ref = ex(start, {'snippets': dict(edited), 'options': {'output.format': False}})       # reference first, with a table of its own
        live = {'snippets': dict(table), 'options': {'output.format': False}}
        ex(start, live)
        live['snippets'][start] = 'x>y'
        r = ex(start, live)
        if r != ref:
            bad.append(('user-table:edited-in-place-not-seen', dict(table=table, start=start, new_definition='x>y', actual=r, expected=ref)))
    if not cyclic_from(table, start):
        for ctx_name, a, dd in (('alone', start, '(%s)' % table[start]), ('as-child-with-sibling', 'p>%s+q' % start, 'p>(%s)+q' % table[start]),
                                ('repeated-group', '(%s)*2' % start, '((%s))*2' % table[start])):
            r1 = ex(a, dict(cfg))
            r2 = ex(dd, dict(cfg))
            if r1 != r2:
                bad.append(('user-table:alias-differs-from-definition:%s' % ctx_name, dict(table=table, alias=a, definition=dd, alias_output=r1, definition_output=r2)))
    return bad, d.max


# a definition that does not parse, reached through another alias: the alias fails like its definition written in place does
# (a parse error of the library), it never yields a partial result with the inner name left as an element
MALFORMED_INNER = ['x["', 'x[a="b', 'y{t', '(x', 'x)', 'x[a=b']       # the middle two are accepted leniently: then the results are equal
MALFORMED_OUTER = ['kb', 'p>kb', 'kb+q', '(kb)*2', 'q>kb+r', 's.c>kb']


def check_malformed():
    out = []
    for inner in MALFORMED_INNER:
        for outer in MALFORMED_OUTER:
            table = dict(ka=outer, kb=inner)
            cfg = {'snippets': dict(table), 'options': {'output.format': False}}
            for a in ('ka', 'p>ka', 'ka+q', '(ka)*2'):
                r = ex(a, dict(cfg))
                ref = ex(a.replace('ka', '(%s)' % outer), dict(cfg))
                same = (r[:2] == ref[:2]) if (isinstance(r, tuple) and isinstance(ref, tuple)) else (r == ref)
                if not same:
                    out.append(('user-table:malformed-definition-behind-an-alias', dict(table=table, abbr=a, alias_result=r,
                                definition_in_place=ref), dict(kind='malformed', table=table, abbr=a)))
    return out


# a call config that restates one variable and one option only: definitions are still resolved with the merged tables
PARTIAL = {'variables': {'lang': 'de'}, 'options': {'output.tagCase': 'upper'}}


def check_builtin(syn, key, D, ctx_name, a, dd, rev):
    if rev == 'partial':
        cfg = dict(PARTIAL, syntax=syn)
    else:
        cfg = {'syntax': syn, 'options': {'output.reverseAttributes': True}} if rev else {'syntax': syn}
    r1 = ex(a, cfg)
    r2 = ex(dd, dict(cfg))
    if isinstance(r1, tuple):
        return ('builtin:exception:%s' % r1[1], dict(alias=a, error=r1))
    if r1 != r2:
        return ('builtin:alias-differs-from-definition:%s' % ctx_name.split('.')[0].split('[')[0], dict(alias=a, definition=dd, alias_output=r1, definition_output=r2))
    return None


def run_shard(shard, ctx, tier):
    if shard['kind'] == 'raw-names':
        for syn, name, value in raw_names():
            ctx.tick((syn, name))
            ctx.states += 1
            ctx.transitions += 1
            ctx.evals += 1
            ctx.validated += 1
            ctx.nontrivial += 1
            for cls, d in check_raw_name(syn, name, value):
                ctx.violation(cls, dict(kind='raw-name', syntax=syn, name=name, value=value), d)
        ctx.sample(dict(kind='raw-names'))
        return
    if shard['kind'] == 'multi':
        for di, defn in enumerate(MULTI_DEFS):
            for extra in MULTI_EXTRAS:
                for rev in (False, True):
                    for repeat in (False, True):
                        ctx.tick((di, extra, rev))
                        ctx.states += 1
                        ctx.transitions += 1
                        ctx.evals += 2
                        ctx.validated += 1
                        ctx.nontrivial += 1
                        for cls, d in check_multi(defn, extra, rev, repeat):
                            ctx.violation(cls, dict(kind='multi', defn=di, extra=extra, reverse=rev, repeat=repeat), d)
        for di, defn in enumerate(MULTI_DEFS[:4]):
            for extra in BEM_EXTRAS:
                ctx.states += 1
                ctx.transitions += 1
                ctx.evals += 2
                ctx.validated += 1
                ctx.nontrivial += 1
                for cls, d in check_bem_multi(defn, extra):
                    ctx.violation(cls, dict(kind='bem-multi', defn=defn, extra=extra), d)
        ctx.sample(dict(kind='multi', definition='x.p+y.q', alias='ka.z'))
        return
    if shard['kind'] == 'builtin':
        syn = shard['syntax']
        table = Config({'syntax': syn}).snippets
        for key in shard['keys']:
            D = table[key]
            for rev in (False, True, 'partial'):
                pairs = list(builtin_pairs(key, D))
                if SIMPLE.match(D):
                    pairs += list(simple_pairs(key, D, rev is True))
                else:
                    ctx.skip('attribute/text/repeater extras on a multi-element or text definition')
                if TEXT_TAIL.search(D):
                    ctx.skip('children appended to an alias whose definition ends in a text-only node')
                    # where such children are placed is left open, but they are written (weak oracle)
                    r_ = ex(key + '>k9', {'syntax': syn, 'options': {'output.format': False}})
                    if not isinstance(r_, tuple) and 'k9' not in r_:
                        ctx.violation('builtin:children-of-an-alias-lost', dict(kind='builtin-child', syntax=syn, key=key), dict(abbr=key + '>k9', output=r_[:200]))
                for ctx_name, a, dd in pairs:
                    ctx.tick((syn, a))
                    ctx.states += 1
                    ctx.transitions += 1
                    ctx.evals += 2
                    ctx.validated += 1
                    ctx.nontrivial += 1
                    bad = check_builtin(syn, key, D, ctx_name, a, dd, rev)
                    ctx.outcome((syn, ctx_name, bad is None))
                    if bad:
                        ctx.violation(bad[0], dict(kind='builtin', syntax=syn, key=key, context=ctx_name, alias=a, definition=dd, reverse=rev), bad[1])
        ctx.sample(dict(syntax=syn, key=key, definition=D[:60]))
        return
    defs = BOUNDS[tier]['defs']
    table = None
    if shard['a'] == 0:
        for cls, d, case in check_malformed():
            ctx.violation(cls, case, d)
        ctx.evals += len(MALFORMED_OUTER) * len(MALFORMED_INNER) * 4
    for b_, c_ in itertools.product(defs, repeat=2):
        table = dict(ka=defs[shard['a']], kb=b_, kc=c_)
        for start in BOUNDS[tier]['start']:
            ctx.tick((table, start))
            ctx.states += 1
            ctx.transitions += 1
            ctx.evals += 1
            ctx.validated += 1
            ctx.nontrivial += 1
            bad, depth = check_user(table, start)
            ctx.outcome((cyclic_from(table, start), depth))
            ctx.extra['max_resolve_frames_%d' % depth] += 1
            for cls, d in bad:
                ctx.violation(cls, dict(kind='user', table=table, start=start), d)
    if table:
        ctx.sample(dict(table=table, start=BOUNDS[tier]['start'][0]))


def check_case(case):
    if case['kind'] == 'builtin-child':
        r_ = ex(case['key'] + '>k9', {'syntax': case['syntax'], 'options': {'output.format': False}})
        if not isinstance(r_, tuple) and 'k9' not in r_:
            return [('builtin:children-of-an-alias-lost', dict(output=r_[:200]))]
        return []
    if case['kind'] == 'bem-multi':
        return check_bem_multi(case['defn'], case['extra'])
    if case['kind'] == 'raw-name':
        return check_raw_name(case['syntax'], case['name'], case['value'])
    if case['kind'] == 'multi':
        return check_multi(MULTI_DEFS[case['defn']], case['extra'], case['reverse'], case['repeat'])
    if case['kind'] == 'malformed':
        return [(c, d) for c, d, k in check_malformed() if k['table'] == case['table'] and k['abbr'] == case['abbr']]
    if case['kind'] == 'user':
        return check_user(case['table'], case['start'])[0]
    bad = check_builtin(case['syntax'], case['key'], None, case['context'], case['alias'], case['definition'], case['reverse'])
    return [bad] if bad else []


def repro(case):
    if case['kind'] in ('builtin-child', 'bem-multi'):
        return '# see mc/props/c14.py: %r\n' % (case,)
    if case['kind'] == 'raw-name':
        return 'from emmet.config import Config\nprint(Config({"syntax": %r}).snippets.get(%r))  # raw table lists this name\n' % (case['syntax'], case['name'])
    if case['kind'] == 'multi':
        return '# see check_multi in mc/props/c14.py: %r\n' % (case,)
    if case['kind'] == 'malformed':
        return 'from emmet import expand\nprint(expand(%r, {"snippets": %r}))  # must raise the parse error its definition raises\n' % (case['abbr'], case['table'])
    if case['kind'] == 'user':
        return 'from emmet import expand\nprint(expand(%r, {"snippets": %r}))\n' % (case['start'], case['table'])
    cfg = {'syntax': case['syntax']}
    if case['reverse'] == 'partial':
        cfg = dict(PARTIAL, syntax=case['syntax'])
    elif case['reverse']:
        cfg['options'] = {'output.reverseAttributes': True}
    return 'from emmet import expand\nprint(expand(%r, %r))\nprint(expand(%r, %r))  # must be equal\n' % (case['alias'], cfg, case['definition'], cfg)
