"""C10  CSS matcher returns the innermost rule or declaration with exact ranges.

E2 x E4: all forests of rules / declarations / comments up to a node bound, texts assigned from the selector and
declaration menus in every rotation, three layouts, x every caret position.  Oracle: the generator's record
(mc/ref/cssdoc.py), by the letter of the statement.
"""
from emmet import css_matcher as CM
from mc.ref import cssdoc as D

ID = 'C10'

BOUNDS = {
    # pair: all ordered pairs of comment-free rule trees with up to that many nodes each, written as two top-level rules
    # (what an earlier subtree leaves behind meets every later subtree), compact layout, every position
    'quick': dict(nodes=4, depth=3, rotations=15, layouts=D.LAYOUTS, big=0, pair=4),
    'thorough': dict(nodes=5, depth=3, rotations=15, layouts=D.LAYOUTS, big=6, pair=5),
}
NSH = 64


def describe(tier):
    b = BOUNDS[tier]
    assert b['rotations'] >= max(len(D.SELECTORS), len(D.DECLS)), 'every entry of the text menus must lead a rotation'
    return dict(
        rule='E2xE4: all forests with <= %d nodes over {rule, declaration, comment}, rule nesting <= %d, texts from %d selectors %s and %d '
             'declarations %s in %d rotations, plus parenthesised-delimiter declarations %s in a separate pass; layouts %s%s; plus all ordered pairs of comment-free rule trees with <= %d nodes each as two top-level rules (compact layout); every '
             'position 0..len; match, balanced_outward, balanced_inward. Transition = caret +1 / one more node.' % (
                 b['nodes'], b['depth'], len(D.SELECTORS), D.SELECTORS, len(D.DECLS), D.DECLS, b['rotations'], D.DECLS_PAREN,
                 b['layouts'], '; %d nodes in the compact layout, one rotation' % b['big'] if b['big'] else '', b['pair']),
        nontrivial='the position lies strictly inside at least one rule or declaration.',
        bounds=b,
        assumptions=['the checked calls at every fourth position are preceded by %d calls on incomplete / ill-formed text (unclosed and stray parentheses, '
                     'unterminated string and comment): history must not matter' % len(POISON), 'balanced_inward on node boundaries and declarations not terminated by `;` are left unspecified (C16 covers totality)'],
        explanation='Every (stylesheet, position) is given to the real matcher and compared with the generator ground truth.',
    )


def shards(tier):
    return [dict(k=k, of=NSH) for k in range(NSH)]


def docs(tier):
    "yields (shape, rotation, layout, paren)"
    b = BOUNDS[tier]
    for n in range(1, b['nodes'] + 1):
        for sh in D.shapes(n, b['depth']):
            for rot in range(b['rotations']):
                for lay in b['layouts']:
                    if lay.startswith('glued') and rot % 2:
                        continue                      # the fifth layout in every second rotation
                    yield sh, rot, lay, False
            if any_decl(sh):
                for rot in range(len(D.DECLS_PAREN)):
                    yield sh, rot, 'compact', True
    for n in range(b['nodes'] + 1, b['big'] + 1):
        for sh in D.shapes(n, b['depth']):
            yield sh, n, 'compact', False
    # value-less statements (`@include x;`) among the declarations: match() for every position that no statement contains
    for n in range(1, b['nodes'] + 1):
        for sh in D.shapes(n, b['depth']):
            if any_decl(sh) and no_comment(sh):
                for rot in range(len(STMT_DECLS)):
                    yield sh, rot, 'compact', 'stmt'
    small = [t for n in range(1, b['pair'] + 1) for t in D.trees(n, b['depth']) if t[0] == 'R' and no_comment([t])]
    for i, a in enumerate(small):
        for j, c in enumerate(small):
            yield [a, c], (i + j) % 15, 'compact', False
            if any_decl([a]) and any_decl([c]):
                yield [a, c], 0, 'compact', 'same'          # every declaration is `b:c;`: rule bodies repeat each other's text


STMT_DECLS = [('b', 'c'), ('@include x', None), ('b', 'c d'), ('@extend %y', None)]


def decls_for(paren):
    return D.DECLS_PAREN if paren is True else [('b', 'c')] if paren == 'same' else STMT_DECLS if paren == 'stmt' else None


def check_match_only(text, nodes, p):
    "documents with value-less statements: only match(), and only where the innermost node is a rule or a declaration"
    enc = D.enclosing(nodes, p)
    if any(nodes[i]['kind'] == 'stmt' for i in enc):
        return []
    # a position on the boundary of a statement is left alone as well
    if any(n['kind'] == 'stmt' and n['start'] <= p <= n['end'] for n in nodes):
        return []
    try:
        m = CM.match(text, p)
    except Exception as e:
        return [('match:exception:%s' % type(e).__name__, str(e)[:100])]
    if enc:
        n = nodes[enc[0]]
        exp = ('property', n['start'], n['end'], n['value'][0], n['value'][1]) if n['kind'] == 'decl' else \
              ('selector', n['start'], n['end'], n['body'][0], n['body'][1])
        if m is None:
            return [('match:none-inside-%s:with-statements' % n['kind'], dict(expected=exp))]
        if mtuple(m) != exp:
            return [('match:wrong-node-or-ranges:%s:with-statements' % n['kind'], dict(expected=exp, got=mtuple(m)))]
    elif m is not None:
        return [('match:found-where-none-encloses:with-statements', dict(got=mtuple(m)))]
    return []


def no_comment(sh):
    return all(n[0] != 'C' and (n[0] != 'R' or no_comment(n[1])) for n in sh)


def anchored_positions(text, nodes):
    "the first / second / last-but-one / last offset of every node, and both ends of every rule body"
    ps = set()
    for n in nodes:
        ps.update((n['start'], n['start'] + 1, n['end'] - 1, n['end']))
        if n['kind'] == 'rule':
            ps.update(n['body'])
        elif n.get('value'):
            ps.update((n['value'][0], n['value'][1]))
    return sorted(p for p in ps if 0 <= p <= len(text))


def any_decl(sh):
    return any(n[0] == 'D' or (n[0] == 'R' and any_decl(n[1])) for n in sh)


def mtuple(m):
    return (m.type, m.start, m.end, m.body_start, m.body_end)


# calls on incomplete or ill-formed text made before every checked call: nothing of them may survive into the next call
# (an unclosed parenthesis, a stray closing one, a scan that stops early inside parentheses)
POISON = [('.hero {\n    width: calc(100% - ', 31), ('a { color: 0, 0, 0, .5); }\n', 6),
          ('a { b: url(data:image/png;base64,AAAA); c: d }', 20), ('a { b: "x', 8), ('a { /* x', 7)]


def poison():
    for text, p in POISON:
        for f in (CM.match, CM.balanced_outward, CM.balanced_inward):
            try:
                f(text, p)
            except Exception:
                pass


def check_pos(text, nodes, p):
    bad = []
    enc = D.enclosing(nodes, p)
    if p % 4 == 0:
        poison()
    try:
        m = CM.match(text, p)
    except Exception as e:
        return [('match:exception:%s' % type(e).__name__, str(e)[:100])]
    if enc:
        n = nodes[enc[0]]
        if n['kind'] == 'decl':
            exp = ('property', n['start'], n['end'], n['value'][0], n['value'][1])
        else:
            exp = ('selector', n['start'], n['end'], n['body'][0], n['body'][1])
        if m is None:
            bad.append(('match:none-inside-%s' % n['kind'], dict(expected=exp)))
        elif mtuple(m) != exp:
            bad.append(('match:wrong-node-or-ranges:%s' % n['kind'], dict(expected=exp, got=mtuple(m))))
    elif m is not None:
        bad.append(('match:found-where-none-encloses', dict(got=mtuple(m))))
    try:
        o = [tuple(r) for r in CM.balanced_outward(text, p)]
    except Exception as e:
        return bad + [('outward:exception:%s' % type(e).__name__, str(e)[:100])]
    exp = D.outward(nodes, p)
    if o != exp:
        bad.append(('outward:list', dict(expected=exp, got=o)))
    if not D.on_boundary(nodes, p):
        try:
            i = [tuple(r) for r in CM.balanced_inward(text, p)]
        except Exception as e:
            return bad + [('inward:exception:%s' % type(e).__name__, str(e)[:100])]
        exp = D.inward(nodes, p)
        if i != exp:
            bad.append(('inward:chain', dict(expected=exp, got=i)))
    return bad


def refine(cls, text, nodes, p, detail):
    "narrow classifier: recognise the fingerprints of the listed defects so that anything else stays a new violation"
    enc = D.enclosing(nodes, p)
    inner = nodes[enc[0]] if enc else None
    # a declaration of the document contains a delimiter inside parentheses
    paren = any(n['kind'] == 'decl' and ('(a;b)' in text[n['value'][0]:n['value'][1]] or '({)' in text[n['value'][0]:n['value'][1]])
                for n in nodes)
    if paren:
        return 'delimiter-inside-parentheses'
    if inner is not None and inner['kind'] == 'decl' and inner['value'][1] <= p < inner['end']:
        return cls + ':caret-between-value-end-and-semicolon'
    if cls == 'outward:list' and detail.get('got') == [] and any(n['parent'] is None and n['kind'] == 'rule' and n['end'] <= p for n in nodes):
        return cls + ':empty-after-first-top-level-rule'
    return cls


def run_shard(shard, ctx, tier):
    k, of = shard['k'], shard['of']
    text = None
    for idx, (sh, rot, lay, paren) in enumerate(docs(tier)):
        if idx % of != k:
            continue
        text, nodes = D.emit(sh, rot, lay, decls_for(paren))
        ctx.states += 1
        for p in range(len(text) + 1):
            ctx.tick((text, p))
            ctx.transitions += 1
            ctx.evals += 3
            ctx.validated += 1
            enc = D.enclosing(nodes, p)
            if enc:
                ctx.nontrivial += 1
            if D.on_boundary(nodes, p):
                ctx.skip('balanced_inward at a node boundary')
            ctx.outcome((len(enc), nodes[enc[0]]['kind'] if enc else None))
            if paren == 'stmt':
                for cls, d in check_match_only(text, nodes, p):
                    ctx.violation(cls, dict(shape=sh, rotation=rot, layout=lay, paren=paren, pos=p, text=text), d)
                continue
            for cls, d in check_pos(text, nodes, p):
                ctx.violation(refine(cls, text, nodes, p, d), dict(shape=sh, rotation=rot, layout=lay, paren=paren, pos=p, text=text), d)
    if text:
        ctx.sample(dict(stylesheet=text, positions=len(text) + 1))
    if k == 0:
        b = BOUNDS[tier]
        if b['depth'] >= b['nodes'] - 1:
            pass
        n = sum(1 for m in range(1, 5) for _ in D.shapes(m, 4))
        want = sum(D.count_shapes(m) for m in range(1, 5))
        ctx.extra['shapes_le4_enumerated'] = n
        ctx.extra['shapes_le4_by_closed_recurrence'] = want
        if n != want:
            raise AssertionError('shape enumeration %d != closed recurrence %d' % (n, want))


def _tup(sh):
    return [('R', _tup(n[1])) if n[0] == 'R' else (n[0],) for n in sh]


def check_case(case):
    pr_ = case.get('paren')
    text, nodes = D.emit(_tup(case['shape']), case['rotation'], case['layout'], decls_for(pr_))
    if pr_ == 'stmt':
        return check_match_only(text, nodes, case['pos'])
    return [(refine(c, text, nodes, case['pos'], d), d) for c, d in check_pos(text, nodes, case['pos'])]


def repro(case):
    return 'from emmet import css_matcher as M\nm = M.match(%r, %d)\nprint(m and m.to_json())\nprint(M.balanced_outward(%r, %d))\nprint(M.balanced_inward(%r, %d))\n' % (
        case['text'], case['pos'], case['text'], case['pos'], case['text'], case['pos'])
