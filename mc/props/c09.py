"""C09  HTML matcher returns the innermost enclosing tag pair with exact ranges.

E2 x E4: all document forests up to a node bound over the node-kind menu (paired, void, self-closed, comment, CDATA, PI,
script/style with markup-like bodies, non-special script template, text), one element at a time carrying each attribute
set, HTML and XML mode, x every caret position.  Oracle: the generator's own record of where every element, tag and
attribute lies (mc/ref/htmldoc.py); nothing is parsed back.
"""
from emmet import html_matcher as H
from mc.ref import htmldoc as D

ID = 'C09'

BOUNDS = {
    # plain: node bounds for forests without attributes (all leaf kinds); small: bound with the reduced leaf menu;
    # attrs: node bound for forests in which one element at a time carries each attribute set
    # bodies: node bound for the pass with the alternative comment / CDATA / PI / script / style / text bodies
    'quick': dict(plain=3, small=0, attrs=2, bodies=3),
    'thorough': dict(plain=4, small=0, attrs=3, bodies=3),
}
NSH = 64


def describe(tier):
    b = BOUNDS[tier]
    return dict(
        rule='E2xE4: all forests with <= %d nodes over leaf kinds %s and paired kinds %s%s; all forests with <= %d nodes in which one '
             'element at a time carries one of %d attribute sets; HTML and XML mode (void names are written as pairs in XML); every '
             'position 0..len; match, balanced_outward, balanced_inward. State = (document, mode, position); transition = caret +1 / '
             'one more node. Forests with <= %d nodes that have a comment / CDATA / PI / script / style / text node are also emitted with each of the '
             'alternative bodies %s (terminator preceded by its own first character, empty body, body made of tag-opening '
             'characters).' % (b['plain'], D.LEAVES, D.PAIRED,
                                 '; <= %d nodes with leaf kinds %s' % (b['small'], D.LEAVES_SMALL) if b['small'] else '',
                                 b['attrs'], len(D.ATTR_SETS), b['bodies'], D.BODY_VARIANTS[1:]),
        nontrivial='the position lies strictly inside at least one element.',
        bounds=b,
        assumptions=['forests with the template element and no script / style are also written with a bare <script> and matched '
                     'with an empty `special` table (an empty table is a table)', 'every checked call on a document with attributes is preceded by the same call on a same-length document with other '
                     'attribute text at the same offsets', 'the checked calls at every eighth position are preceded by %d x 3 calls on ill-formed documents in the other '
                     'mode: history must not matter' % len(POISON), 'balanced_inward exactly at element boundaries and ill-formed documents are left unspecified (C16 covers totality)'],
        explanation='Every (document, position) is given to the real matcher functions and compared with the generator ground truth; '
                    'the enumeration count is cross-checked against the closed recurrence for forests.',
    )


def shards(tier):
    return [dict(k=k, of=NSH) for k in range(NSH)]


def docs(tier):
    "(forest, body variant)"
    for f in docs0(tier):
        yield f, 0
    b = BOUNDS[tier]
    for n in range(1, b['bodies'] + 1):
        for f in D.forests(n):
            if D.uses_body(f):
                for v in range(1, len(D.BODY_VARIANTS)):
                    if v == 3 and not D.uses_kind(f, 'script'):
                        continue              # the fourth variant only changes script elements
                    yield f, v
            if D.uses_kind(f, 'tpl') and not any(D.uses_kind(f, k_) for k_ in ('script', 'style', 'script/')):
                yield f, 'special-off'         # a bare <script> with markup children, matched with an empty `special` table


def docs0(tier):
    b = BOUNDS[tier]
    for n in range(1, b['plain'] + 1):
        for f in D.forests(n):
            yield f
    for n in range(b['plain'] + 1, b['small'] + 1):
        for f in D.forests(n, D.LEAVES_SMALL, D.PAIRED[:2]):
            yield f
    for n in range(1, b['attrs'] + 1):
        for f in D.forests(n):
            for path in D.element_paths(f):
                for aset in D.ATTR_SETS:
                    yield D.with_attrs(f, path, aset)


def tag_tuple(t):
    return (t.name, tuple(t.open), tuple(t.close) if t.close else None)


def exp_tuple(e):
    return (e['name'], tuple(e['open']), tuple(e['close']) if e['close'] else None)


# calls on ill-formed documents made before the checked calls at every eighth position: nothing of them may survive
POISON = [('<div a="', 3), ('<p><!-- x', 5), ('<a><script>if (a<b) <i>', 14), ('</b><c', 2), ('<![CDATA[ <x', 10), ("<e f='>", 4)]


def poison(xml):
    for text, p in POISON:
        for f in (H.match, H.balanced_outward, H.balanced_inward):
            try:
                f(text, p, {'xml': not xml})
            except Exception:
                pass


_VARIANT = {}


def variant_of(text, elements):
    v = _VARIANT.get(text)
    if v is None:
        if len(_VARIANT) > 64:
            _VARIANT.clear()
        v = _VARIANT[text] = D.attribute_variant(text, elements) if any(e['attrs'] for e in elements) else ''
    return v


def check_pos(text, elements, xml, p, special_off=False):
    """-> list of (class, detail)"""
    bad = []
    opt = {'xml': xml, 'special': {}} if special_off else {'xml': xml}
    if p % 8 == 0:
        poison(xml)
    variant = variant_of(text, elements)
    if variant:
        # the same call on a document of the same length with the same tags at the same offsets but other attribute text
        try:
            H.match(variant, p, opt)
        except Exception:
            pass
    enc = D.enclosing(elements, p)
    # match
    try:
        m = H.match(text, p, opt)
    except Exception as e:
        return [('match:exception:%s' % type(e).__name__, str(e)[:100])]
    if not enc:
        if m is not None:
            bad.append(('match:found-where-none-encloses', dict(got=tag_tuple(m))))
    else:
        e = elements[enc[0]]
        if m is None:
            bad.append(('match:none-inside-element', dict(expected=exp_tuple(e))))
        elif tag_tuple(m) != exp_tuple(e):
            bad.append(('match:not-innermost-or-wrong-ranges', dict(expected=exp_tuple(e), got=tag_tuple(m))))
        else:
            got = [(a.name, a.name_start, a.name_end, a.value, a.value_start, a.value_end) for a in m.attributes]
            if got != [tuple(a) for a in e['attrs']]:
                bad.append(('match:attributes', dict(expected=e['attrs'], got=got)))
            else:
                for a in m.attributes:
                    if text[a.name_start:a.name_end] != a.name or (a.value is not None and text[a.value_start:a.value_end] != a.value):
                        bad.append(('match:attribute-range-does-not-slice', dict(attr=a.name)))
    # outward
    try:
        o = H.balanced_outward(text, p, opt)
    except Exception as e:
        return bad + [('outward:exception:%s' % type(e).__name__, str(e)[:100])]
    if [tag_tuple(t) for t in o] != [exp_tuple(elements[i]) for i in enc]:
        bad.append(('outward:list', dict(expected=[exp_tuple(elements[i]) for i in enc], got=[tag_tuple(t) for t in o])))
    # inward
    if not D.on_boundary(elements, p):
        try:
            inw = H.balanced_inward(text, p, opt)
        except Exception as e:
            return bad + [('inward:exception:%s' % type(e).__name__, str(e)[:100])]
        exp = [exp_tuple(elements[i]) for i in D.first_child_chain(elements, enc[0])] if enc else []
        if [tag_tuple(t) for t in inw] != exp:
            bad.append(('inward:chain', dict(expected=exp, got=[tag_tuple(t) for t in inw])))
    return bad


def run_shard(shard, ctx, tier):
    k, of = shard['k'], shard['of']
    text = None
    for idx, (forest, bv) in enumerate(docs(tier)):
        if idx % of != k:
            continue
        for xml in ((False,) if bv == 'special-off' else (False, True)):
            if bv == 'special-off':
                text, elements = D.emit(forest, xml, None, True)
            else:
                text, elements = D.emit(forest, xml, D.BODY_VARIANTS[bv])
            ctx.states += 1
            if not xml and bv != 'special-off':
                # calls that rely on the default options, made after calls with explicit options, behave like explicit defaults
                for p in range(0, len(text) + 1, 3):
                    H.match(text, p, {'xml': True, 'empty': ['div'], 'special': {}})
                    a = H.match(text, p)
                    b = H.match(text, p, {'xml': False})
                    if (a and tag_tuple(a)) != (b and tag_tuple(b)):
                        ctx.violation('match:default-options-differ-from-explicit-defaults', dict(forest=forest, xml=None, pos=p, text=text),
                                      dict(default_call=a and tag_tuple(a), explicit_call=b and tag_tuple(b)))
            for p in range(len(text) + 1):
                ctx.tick((text, p))
                ctx.transitions += 1
                ctx.evals += 3
                ctx.validated += 1
                if D.on_boundary(elements, p):
                    ctx.skip('balanced_inward at an element boundary')
                enc = D.enclosing(elements, p)
                if enc:
                    ctx.nontrivial += 1
                ctx.outcome((len(enc), elements[enc[0]]['kind'] if enc else None, xml))
                for cls, d in check_pos(text, elements, xml, p, bv == 'special-off'):
                    ctx.violation(cls, dict(forest=forest, xml=xml, pos=p, text=text, body=bv), d)
    if text:
        ctx.sample(dict(document=text, positions=len(text) + 1))
    if k == 0:
        b = BOUNDS[tier]
        n = sum(1 for n_ in range(1, b['plain'] + 1) for _ in D.forests(n_))
        want = sum(D.count_forests(n_, len(D.LEAVES), len(D.PAIRED)) for n_ in range(1, b['plain'] + 1))
        ctx.extra['forests_enumerated'] = n
        ctx.extra['forests_by_closed_recurrence'] = want
        if n != want:
            raise AssertionError('forest enumeration %d != closed recurrence %d' % (n, want))


def _untuple(f):
    return [(k, _untuple(ch), [tuple(a) for a in attrs]) for k, ch, attrs in f]


def check_case(case):
    forest = _untuple(case['forest'])
    if case['xml'] is None:
        text, elements = D.emit(forest, False)
        H.match(text, case['pos'], {'xml': True, 'empty': ['div'], 'special': {}})
        a = H.match(text, case['pos'])
        b = H.match(text, case['pos'], {'xml': False})
        if (a and tag_tuple(a)) != (b and tag_tuple(b)):
            return [('match:default-options-differ-from-explicit-defaults', dict(default_call=a and tag_tuple(a), explicit_call=b and tag_tuple(b)))]
        return []
    if case.get('body') == 'special-off':
        text, elements = D.emit(forest, case['xml'], None, True)
        return check_pos(text, elements, case['xml'], case['pos'], True)
    text, elements = D.emit(forest, case['xml'], D.BODY_VARIANTS[case.get('body', 0)])
    return check_pos(text, elements, case['xml'], case['pos'])


def repro(case):
    return 'from emmet import html_matcher as H\nm = H.match(%r, %d, {"xml": %r})\nprint(m and (m.name, m.open, m.close))\n' \
           'print([(t.name, t.open, t.close) for t in H.balanced_outward(%r, %d, {"xml": %r})])\n' % (
               case['text'], case['pos'], case['xml'], case['text'], case['pos'], case['xml'])
