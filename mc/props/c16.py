"""C16  Scanners and matchers are total and report only well-formed ranges.

E1 typing trees over the HTML and CSS source alphabets and HTML token-level units, E3 edit neighbourhoods of the
well-formed documents of C09/C10, x every position from -1 to len+1, on every scanner / matcher entry point.
Oracle: no exception, the watchdog stays silent, every reported range is ordered and inside the source, HTML tags are
delimited by < and > and carry their name, and the match / outward / inward consistency clauses of the statement.
"""
from emmet import html_matcher as H
from emmet import css_matcher as CM
from emmet.html_matcher import scan as hscan, attributes as hattrs
from emmet.html_matcher.utils import ScannerOptions
from emmet.css_matcher import scan as cscan, split_value
from mc import explore
from mc.alphabets import SIGMA_C, SIGMA_H, UNITS_H
from mc.ref import htmldoc, cssdoc
from mc.props.c07 import sig

ID = 'C16'

BOUNDS = {
    'quick': dict(chars=4, scan_chars=5, units=3, tags=5, nbh_nodes=1, radius=1, nbh2=[]),
    'thorough': dict(chars=5, scan_chars=6, units=4, tags=6, nbh_nodes=2, radius=1, nbh2=True),
}
# whole tags as symbols: every mis-nesting, stray closing tag and unclosed element of up to `tags` tags over three names
TAGS_T = ['<a>', '</a>', '<b>', '</b>', '<i>', '</i>', '<br>', 'x']


def describe(tier):
    b = BOUNDS[tier]
    return dict(
        rule='E1: all strings over the CSS source alphabet %s and the HTML source alphabet %s with <= %d characters (<= %d for the '
             'scan-only functions and attributes/split_value), all sequences of <= %d HTML token-level units %s and of <= %d whole tags %s; E3: every string at '
             'edit distance <= %d from the well-formed C09/C10 documents with <= %d nodes (distance 2 around the short seeds %s); x every position '
             '-1..len+1; HTML in both modes. Functions: html_matcher.scan/match/balanced_outward/balanced_inward/attributes, '
             'css_matcher.scan/match/balanced_outward/balanced_inward/split_value. Transition = one appended symbol / edit / caret move.' % (
                 SIGMA_C, SIGMA_H, b['chars'], b['scan_chars'], b['units'], UNITS_H, b['tags'], TAGS_T, b['radius'], b['nbh_nodes'], NBH2_SEEDS if b['nbh2'] else []),
        nontrivial='at least one of the functions reported a tag / token / range for the string.',
        bounds=b,
        assumptions=['alphabets hold one representative per character class the scanners distinguish'],
        explanation='Direct exploration of the scanner and matcher entry points; violations are keyed by the failing sub-oracle '
                    '(and the innermost emmet frame for exceptions).',
    )


def shards(tier):
    b = BOUNDS[tier]
    out = []
    for sh in explore.strings_shards(SIGMA_C, b['chars'], 2):
        out.append(dict(lang='css', kind='chars', full=True, **sh))
    for sh in explore.strings_shards(SIGMA_H, b['chars'], 2):
        out.append(dict(lang='html', kind='chars', full=True, **sh))
    if b['scan_chars'] > b['chars']:
        for sh in explore.strings_shards(SIGMA_C, b['scan_chars'], 2):
            if not sh.get('short'):
                out.append(dict(lang='css', kind='chars', full=False, minlen=b['chars'] + 1, **sh))
        for sh in explore.strings_shards(SIGMA_H, b['scan_chars'], 2):
            if not sh.get('short'):
                out.append(dict(lang='html', kind='chars', full=False, minlen=b['chars'] + 1, **sh))
    for sh in explore.strings_shards(UNITS_H, b['units'], 2 if b['units'] >= 4 else 1):
        out.append(dict(lang='html', kind='units', full=True, **sh))
    for sh in explore.strings_shards(TAGS_T, b['tags'], 2):
        out.append(dict(lang='html', kind='tags', full=True, **sh))
    for lang in ('html', 'css'):
        seeds = seed_docs(lang, b['nbh_nodes'])
        for i in range(0, len(seeds), 4):
            out.append(dict(lang=lang, kind='nbh', seeds=seeds[i:i + 4], radius=b['radius']))
        if b['nbh2']:
            for s in NBH2_SEEDS[lang]:
                out.append(dict(lang=lang, kind='nbh', seeds=[s], radius=2))
    return out


# short well-formed documents whose radius-2 neighbourhood is still small enough to enumerate
NBH2_SEEDS = {'html': ['<a></a>', '<x/>', '<br>', '<a b="c">', '<!---->'], 'css': ['a{b:c;}', 'b:c;', 'a{}', 'a:b{}', '/**/']}


def seed_docs(lang, nodes):
    out = []
    if lang == 'html':
        for n in range(1, nodes + 1):
            for f in htmldoc.forests(n):
                out.append(htmldoc.emit(f, False)[0])
        out.append(htmldoc.emit(htmldoc.with_attrs([('div', [], [])], (0,), htmldoc.ATTR_SETS[5]), False)[0])
        out.append(htmldoc.emit(htmldoc.with_attrs([('x/', [], [])], (0,), htmldoc.ATTR_SETS[3]), False)[0])
    else:
        for n in range(1, nodes + 1):
            for sh in cssdoc.shapes(n, 3):
                for rot in (0, 3, 4):
                    out.append(cssdoc.emit(sh, rot, 'compact')[0])
        out.append(cssdoc.emit([('R', [('D',), ('D',)])], 4, 'spaced')[0])
    return sorted(set(out), key=lambda s: (len(s), s))


def okr(a, b, n):
    return isinstance(a, int) and isinstance(b, int) and 0 <= a <= b <= n


# ---------------------------------------------------------------- HTML
def check_html_scan(s):
    bad = []
    n = len(s)
    ntags = 0
    # the scanner is run as the matchers run it (script/style bodies skipped) and without special elements
    for label, special in (('special', ScannerOptions().special), ('plain', None)):
        tags = []
        try:
            hscan(s, lambda name, t, st, en: tags.append((name, t, st, en)), special)
        except Exception as e:
            return [('html.scan:' + sig(e), str(e)[:80])], 0
        ntags += len(tags)
        last = 0
        for name, t, st, en in tags:
            if not okr(st, en, n):
                bad.append(('html.scan:range-outside-source', dict(tag=(name, t, st, en), mode=label)))
                continue
            if s[st] != '<' or s[en - 1] != '>':
                bad.append(('html.scan:tag-not-delimited-by-angle-brackets', dict(tag=(name, t, st, en), mode=label)))
            pre = '</' if t == 2 else '<'
            if not s.startswith(pre + name, st):
                bad.append(('html.scan:name-not-after-angle-bracket', dict(tag=(name, t, st, en), mode=label)))
            if st < last:
                bad.append(('html.scan:tags-overlap-or-out-of-order', dict(tag=(name, t, st, en), previous_end=last, mode=label)))
            last = en
    tags = [None] * ntags
    try:
        attrs = hattrs(s)
    except Exception as e:
        return bad + [('html.attributes:' + sig(e), str(e)[:80])], len(tags)
    for a in attrs:
        if not okr(a.name_start, a.name_end, n) or (a.value is not None and not okr(a.value_start, a.value_end, n)):
            bad.append(('html.attributes:range-outside-source', dict(attr=a.to_json())))
    return bad, len(tags) + len(attrs)


def tag_shape(s, name, open_r, close_r):
    "each tag range starts with <, ends with > and carries its name right after < or </"
    if not (s[open_r[0]:open_r[0] + 1] == '<' and s[open_r[1] - 1:open_r[1]] == '>' and s.startswith('<' + name, open_r[0])):
        return False
    if close_r and not (s[close_r[1] - 1:close_r[1]] == '>' and s.startswith('</' + name, close_r[0])):
        return False
    return True


def span(t):
    return t.open[0], (t.close or t.open)[1]


def check_html_pos(s, p, xml):
    bad = []
    n = len(s)
    opt = {'xml': xml}
    try:
        m = H.match(s, p, opt)
        o = H.balanced_outward(s, p, opt)
        i = H.balanced_inward(s, p, opt)
    except Exception as e:
        return [('html.match:' + sig(e), str(e)[:80])], 0
    for t in o + i:
        if not okr(t.open[0], t.open[1], n) or (t.close and not okr(t.close[0], t.close[1], n)):
            bad.append(('html.balanced:range-outside-source', dict(tag=t.to_json())))
        elif not tag_shape(s, t.name, t.open, t.close):
            bad.append(('html.balanced:tag-range-not-delimited-or-name-missing', dict(tag=t.to_json())))
    if m:
        if not okr(m.open[0], m.open[1], n) or (m.close and not okr(m.close[0], m.close[1], n)):
            bad.append(('html.match:range-outside-source', dict(open=m.open, close=m.close)))
        elif not tag_shape(s, m.name, m.open, m.close):
            bad.append(('html.match:tag-range-not-delimited-or-name-missing', dict(name=m.name, open=m.open, close=m.close)))
        for a in m.attributes:
            if not okr(a.name_start, a.name_end, n) or (a.value is not None and not okr(a.value_start, a.value_end, n)):
                bad.append(('html.match:attribute-range-outside-source', dict(attr=a.to_json())))
        if not o or (o[0].name, tuple(o[0].open), o[0].close and tuple(o[0].close)) != (m.name, tuple(m.open), m.close and tuple(m.close)):
            bad.append(('html.match:differs-from-first-outward-entry', dict(match=(m.name, m.open, m.close),
                                                                              outward=[t.to_json() for t in o[:1]])))
    elif o:
        bad.append(('html.match:outward-but-no-match', dict(outward=[t.to_json() for t in o[:1]])))
    prev = None
    for t in o:
        st, en = span(t)
        if not (st < p < en):
            bad.append(('html.outward:entry-does-not-contain-position', dict(entry=t.to_json())))
        if prev and not (st <= prev[0] and prev[1] <= en and (st, en) != prev):
            bad.append(('html.outward:entries-not-strictly-nested', dict(entry=t.to_json(), previous=prev)))
        prev = (st, en)
    prev = None
    for t in i:
        st, en = span(t)
        if prev and not (prev[0] <= st and en <= prev[1]):
            bad.append(('html.inward:entries-not-nested', dict(entry=t.to_json(), previous=prev)))
        prev = (st, en)
    return bad, len(o) + len(i)


# ---------------------------------------------------------------- CSS
def check_css_scan(s):
    bad = []
    n = len(s)
    toks = []
    try:
        cscan(s, lambda t, st, en, d: toks.append((t, st, en, d)))
    except Exception as e:
        return [('css.scan:' + sig(e), str(e)[:80])], 0
    for t, st, en, d in toks:
        if not okr(st, en, n):
            bad.append(('css.scan:range-outside-source:%s' % t, dict(token=(t, st, en, d))))
        if not (isinstance(d, int) and -1 <= d < max(n, 1)):
            bad.append(('css.scan:delimiter-outside-source:%s' % t, dict(token=(t, st, en, d))))
    try:
        sv = split_value(s)
    except Exception as e:
        return bad + [('css.split_value:' + sig(e), str(e)[:80])], len(toks)
    last = 0
    for r in sv:
        if not okr(r[0], r[1], n):
            bad.append(('css.split_value:range-outside-source', dict(range=r)))
        elif r[0] < last:
            bad.append(('css.split_value:ranges-overlap', dict(range=r)))
        last = r[1] if okr(r[0], r[1], n) else last
    return bad, len(toks) + len(sv)


def check_css_pos(s, p):
    bad = []
    n = len(s)
    try:
        m = CM.match(s, p)
        o = CM.balanced_outward(s, p)
        i = CM.balanced_inward(s, p)
    except Exception as e:
        return [('css.match:' + sig(e), str(e)[:80])], 0
    if m is not None:
        if not okr(m.start, m.end, n):
            bad.append(('css.match:range-outside-source-or-reversed', m.to_json()))
        if not okr(m.body_start, m.body_end, n):
            bad.append(('css.match:body-range-outside-source-or-reversed', m.to_json()))
    for r in o:
        if not okr(r[0], r[1], n):
            bad.append(('css.outward:range-outside-source-or-reversed', dict(range=list(r))))
    for r in i:
        if not okr(r[0], r[1], n):
            bad.append(('css.inward:range-outside-source-or-reversed', dict(range=list(r))))
    return bad, (1 if m else 0) + len(o) + len(i)


def examine(lang, s, full, ctx=None):
    """-> list of (class, case-extras, detail); counts reported items"""
    out = []
    items = 0
    if lang == 'html':
        bad, k = check_html_scan(s)
        items += k
        out += [(c, {}, d) for c, d in bad]
        if full:
            for xml in (False, True):
                for p in range(-1, len(s) + 2):
                    bad, k = check_html_pos(s, p, xml)
                    items += k
                    out += [(c, dict(pos=p, xml=xml), d) for c, d in bad]
    else:
        bad, k = check_css_scan(s)
        items += k
        out += [(c, {}, d) for c, d in bad]
        if full:
            for p in range(-1, len(s) + 2):
                bad, k = check_css_pos(s, p)
                items += k
                out += [(c, dict(pos=p), d) for c, d in bad]
    return out, items


def run_shard(shard, ctx, tier):
    lang = shard['lang']
    full = shard.get('full', True)
    if shard['kind'] == 'nbh':
        alpha = SIGMA_H if lang == 'html' else SIGMA_C
        seen = set()
        gen = []
        for seed in shard['seeds']:
            for w in explore.neighbourhood(seed, alpha, shard['radius']):
                if w not in seen:
                    seen.add(w)
                    gen.append(w)
    else:
        alpha = UNITS_H if shard['kind'] == 'units' else TAGS_T if shard['kind'] == 'tags' else (SIGMA_H if lang == 'html' else SIGMA_C)
        minlen = shard.get('minlen', 0)
        gen = (''.join(t) for t in explore.strings_of_shard(alpha, shard) if len(t) >= minlen)
    s = None
    for s in gen:
        ctx.tick((lang, s))
        ctx.states += 1
        npos = (len(s) + 3) * (2 if lang == 'html' else 1) if full else 0
        ctx.transitions += 1 + npos
        ctx.evals += 2 + 3 * npos
        ctx.validated += 1 + npos
        found, items = examine(lang, s, full)
        if items:
            ctx.nontrivial += 1
        ctx.outcome((lang, min(items, 50), len(s)))
        for cls, extra, d in found:
            case = dict(lang=lang, source=s, full=full)
            case.update(extra)
            ctx.violation(cls, case, d)
    if s is not None:
        ctx.sample(dict(lang=lang, source=s, positions='-1..%d' % (len(s) + 1)))


def check_case(case):
    found, _ = examine(case['lang'], case['source'], case.get('full', True))
    return [(c, d) for c, e, d in found]


def repro(case):
    if case['lang'] == 'html':
        return 'from emmet import html_matcher as H\ns = %r\nfor p in range(-1, len(s) + 2):\n    print(p, H.match(s, p), H.balanced_outward(s, p), H.balanced_inward(s, p))\n' % case['source']
    return 'from emmet import css_matcher as M\ns = %r\nfor p in range(-1, len(s) + 2):\n    m = M.match(s, p)\n    print(p, m and m.to_json(), M.balanced_outward(s, p), M.balanced_inward(s, p))\n' % case['source']
