"""C19  Math expressions evaluate to their arithmetic value.

E1 over expression tokens and over raw characters (error clause), every string evaluated by the real evaluate() and
compared with the reference (recursive-descent parser to an AST + exact rational evaluation, mc/ref/math_ref.py).
extract(): E1 over texts x every position x lookAhead x whitespace with the range oracle of the statement.
"""
from emmet.math_expression import evaluate, extract
from emmet.math_expression.parser import MathExpressionException
from mc import explore
from mc.alphabets import TOKENS_E, SIGMA_E, SIGMA_EX
from mc.ref import math_ref

ID = 'C19'

BOUNDS = {
    'quick': dict(tokens=5, chars=6, extract=6),
    'thorough': dict(tokens=7, chars=7, extract=7),
}
NUMS = set(t for t in TOKENS_E if t[0].isdigit() or t[0] == '.')     # plain number tokens (not the parenthesised units)
ALLOWED = set('0123456789.+-*/\\() \t')


def describe(tier):
    b = BOUNDS[tier]
    return dict(
        rule='E1: all sequences of <= %d expression tokens from %s (adjacent number tokens excluded so that token and character '
             'views coincide); all character strings over %s with <= %d characters; extract: all texts over %s with <= %d '
             'characters x every position 0..len x lookAhead x whitespace. State = string typed so far (x position x options); '
             'transition = one appended token / character / caret move / option toggle.' % (
                 b['tokens'], TOKENS_E, SIGMA_E, b['chars'], SIGMA_EX, b['extract']),
        nontrivial='the reference parser accepts the string (a value or a division by zero is compared), or extract returned a range.',
        bounds=b,
        assumptions=['chains mixing \\ with * or / without parentheses, leading/trailing blanks and numbers with a trailing dot are '
                     'left unspecified', 'values are compared with relative tolerance 1e-9 against exact rational arithmetic; cases '
                     'where float evaluation in AST order itself differs from the exact value are left unspecified'],
        explanation='Direct exploration of evaluate()/extract(); reference is an AST evaluator, not a re-implementation of the '
                    'operator-priority reordering.',
    )


def shards(tier):
    b = BOUNDS[tier]
    out = []
    for sh in explore.strings_shards(TOKENS_E, b['tokens'], 2):
        out.append(dict(kind='tokens', **sh))
    for sh in explore.strings_shards(SIGMA_E, b['chars'], 2):
        out.append(dict(kind='chars', **sh))
    for sh in explore.strings_shards(SIGMA_EX, b['extract'], 2):
        out.append(dict(kind='extract', **sh))
    return out


def eval_case(s):
    """-> (outcome, violation or None)"""
    exp = math_ref.expected(s)
    try:
        v = evaluate(s)
        got = ('value', v)
    except MathExpressionException:
        got = ('malformed',)
    except ZeroDivisionError:
        got = ('zerodiv',)
    except RecursionError:
        got = ('exc', 'RecursionError')
    except Exception as e:
        got = ('exc', type(e).__name__)
    if got[0] == 'exc':
        return exp[0], ('evaluate:exc:%s' % got[1], dict(expected=exp))
    if exp[0] == 'unspecified':
        return 'unspecified', None
    if exp[0] == 'dot':
        # trailing-dot number: a parse error, or the outcome with the dot dropped; anything else (e.g. skipping the literal) violates
        if got[0] == 'malformed':
            return 'malformed', None
        exp = exp[1]
        if exp[0] == 'malformed':
            return 'malformed', ('evaluate:malformed-accepted', dict(got=got))
    if exp[0] == 'malformed':
        if got[0] != 'malformed':
            return 'malformed', ('evaluate:malformed-accepted', dict(got=got))
        return 'malformed', None
    if exp[0] == 'zerodiv':
        if got[0] != 'zerodiv':
            return 'zerodiv', ('evaluate:zero-division-not-raised', dict(got=got))
        return 'zerodiv', None
    if got[0] != 'value':
        return 'value', ('evaluate:valid-rejected:%s' % got[0], dict(expected=exp[1]))
    if not isinstance(got[1], (int, float)) or not math_ref.close(float(got[1]), exp[1]):
        return 'value', ('evaluate:wrong-value', dict(expected=exp[1], got=got[1]))
    return 'value', None


def extract_case(s, p, la, ws):
    try:
        r = extract(s, p, {'lookAhead': la, 'whitespace': ws})
    except Exception as e:
        return 'exc', ('extract:exc:%s' % type(e).__name__, str(e)[:100])
    if r is None:
        return 'none', None
    try:
        a, b = r
    except Exception:
        return 'shape', ('extract:result-shape', repr(r))
    if not (isinstance(a, int) and isinstance(b, int) and 0 <= a <= b <= len(s)):
        return 'range', ('extract:range-not-ordered-or-outside-text', dict(result=[a, b], len=len(s)))
    e = p
    if la and e < len(s) and s[e] == ')':
        e += 1
        while e < len(s) and (s[e] == ')' or (ws and s[e] in ' \t')):
            e += 1
    if b != e:
        return 'range', ('extract:end-is-not-lookahead-position', dict(result=[a, b], expected_end=e))
    frag = s[a:b]
    if not set(frag) <= ALLOWED:
        return 'range', ('extract:foreign-characters', dict(result=[a, b], fragment=frag))
    d = 0
    for ch in frag:
        if ch == '(':
            d += 1
        elif ch == ')':
            d -= 1
            if d < 0:
                break
    if d != 0:
        return 'range', ('extract:unbalanced-parentheses', dict(result=[a, b], fragment=frag))
    return 'range', None


def run_shard(shard, ctx, tier):
    kind = shard['kind']
    s = None
    if kind in ('tokens', 'chars'):
        alpha = TOKENS_E if kind == 'tokens' else SIGMA_E
        for t in explore.strings_of_shard(alpha, shard):
            if kind == 'tokens' and any(t[i] in NUMS and t[i + 1] in NUMS for i in range(len(t) - 1)):
                continue
            s = ''.join(t)
            ctx.tick(s)
            ctx.states += 1
            ctx.transitions += 1
            ctx.evals += 1
            outcome, bad = eval_case(s)
            if outcome == 'unspecified':
                ctx.skip('expression outside the specified fragment')
            else:
                ctx.validated += 1
            if outcome in ('value', 'zerodiv'):
                ctx.nontrivial += 1
            ctx.outcome((outcome, len(t)))
            if bad:
                ctx.violation(bad[0], dict(expr=s), bad[1])
        if s is not None:
            ctx.sample(dict(evaluate=s))
        return
    for t in explore.strings_of_shard(SIGMA_EX, shard):
        s = ''.join(t)
        ctx.states += 1
        for p in range(len(s) + 1):
            # a call that relies on the default options, made between calls with explicit options, must behave like the
            # explicit (lookAhead on, whitespace on) call
            try:
                r_default = extract(s, p)
                r_explicit = extract(s, p, {'lookAhead': True, 'whitespace': True})
            except Exception:
                r_default = r_explicit = None
            if r_default != r_explicit:
                ctx.violation('extract:default-options-differ-from-explicit-defaults', dict(text=s, pos=p, lookAhead=None, whitespace=None),
                              dict(default_call=r_default, explicit_call=r_explicit))
            for la in (True, False):
                for ws in (True, False):
                    ctx.tick((s, p))
                    ctx.transitions += 1
                    ctx.evals += 1
                    ctx.validated += 1
                    outcome, bad = extract_case(s, p, la, ws)
                    if outcome == 'range':
                        ctx.nontrivial += 1
                    ctx.outcome((outcome, p, len(s)))
                    if bad:
                        ctx.violation(bad[0], dict(text=s, pos=p, lookAhead=la, whitespace=ws), bad[1])
    if s is not None:
        ctx.sample(dict(extract=s))


def check_case(case):
    if 'expr' in case:
        _, bad = eval_case(case['expr'])
    else:
        if case['lookAhead'] is None:
            extract(case['text'], case['pos'], {'lookAhead': False, 'whitespace': False})
            a = extract(case['text'], case['pos'])
            b = extract(case['text'], case['pos'], {'lookAhead': True, 'whitespace': True})
            return [('extract:default-options-differ-from-explicit-defaults', dict(default_call=a, explicit_call=b))] if a != b else []
        _, bad = extract_case(case['text'], case['pos'], case['lookAhead'], case['whitespace'])
    return [bad] if bad else []


def repro(case):
    if 'expr' in case:
        return 'from emmet.math_expression import evaluate\nprint(evaluate(%r))\n' % case['expr']
    return 'from emmet.math_expression import extract\nprint(extract(%r, %r, {"lookAhead": %r, "whitespace": %r}))\n' % (
        case['text'], case['pos'], case['lookAhead'], case['whitespace'])
