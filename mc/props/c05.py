"""C05  Stylesheet abbreviations resolve numbers, units, colors and !important.

E2 over value sequences generated structurally (nothing is parsed by the oracle on the input side): keys x values
(integers, floats, negatives x unit suffixes; every 1/2/3-digit hex color, channel sweeps of 6-digit colors, alpha) x
sequences x `!` x syntaxes x option deviations.  Oracle: expected line = property + between + rendered values + after;
colors are compared by value, their spelling rules separately.  Cases are batched with `+` (one property per line) and
any batch that disagrees is re-run case by case.
"""
import re, itertools
from emmet import expand
from mc import explore

ID = 'C05'

KEYS = [('m', 'margin', False), ('p', 'padding', False), ('lh', 'line-height', True), ('z', 'z-index', True),
        ('op', 'opacity', True), ('bd', 'border', False), ('c', 'color', False),
        ('P', 'padding', False), ('Lh', 'line-height', True)]          # a key names its snippet whatever its letter case
SUFFIXES = ['', 'p', 'e', 'x', 'r', 'px', '%', 'vh', 'Q', 'kHz']      # explicit units are letters of either case
ALIAS = {'p': '%', 'e': 'em', 'x': 'ex', 'r': 'rem'}
NUM_LITS = [('0', False), ('1', False), ('10', False), ('-5', False), ('.5', True), ('1.', True), ('1.25', True), ('-.5', True),
            ('1000000', False), ('2147483647', False), ('1234.567', True), ('.125', True),
            # every spelling of zero stays bare
            ('0.', True), ('.0', True), ('0.0', True), ('00', False)]
ALPHAS = ['', '.5', '.25', '.0']
HEX = '0123456789abcdef'
CH6 = ['00', '01', '0b', '10', '11', '7f', '80', 'b0', 'e7', 'ff']
SYNTAX_FMT = {'css': (': ', ';'), 'scss': (': ', ';'), 'less': (': ', ';'), 'sass': (': ', ''), 'sss': (': ', ';'), 'stylus': (' ', '')}
OPTION_SPACE = {
    'stylesheet.intUnit': ['px', 'pt'],
    'stylesheet.floatUnit': ['em', 'rem'],
    # (the last table has the default int / float units as KEYS: a bare number still gets `px` / `em`, not their alias targets)
    'stylesheet.unitAliases': [None, {'e': 'em', 'p': 'pc', 'x': 'ex', 'r': 'rpx'}, {'x': 'vmin'}, {'px': 'rpx', 'em': 'qem', 'p': '%'}],
    'stylesheet.shortHex': [True, False],
    'stylesheet.between': [None, ':'],
    'stylesheet.after': [None, ' ;'],
    'context': [None, '@@property'],        # not an option: the call is made from inside a rule body (property snippets only)
}
BATCH = 40
BOUNDS = {
    'quick': dict(seq=2, alphas=ALPHAS, pair_colors=24, deviations=2, six=True),
    'thorough': dict(seq=3, alphas=ALPHAS, pair_colors=40, deviations=2, six=True),
}


def describe(tier):
    b = BOUNDS[tier]
    return dict(
        rule='E2: keys %s; numbers %s x suffixes %s; colors: all 16 one-digit, 256 two-digit, 4096 three-digit forms, six-digit forms '
             'with every channel in %s (1000) plus every channel value 00..ff in each position (768), lower and upper case, alpha in %s (thorough: also every 6-digit color over 16 channel values, 4096 x 3 alphas, and all value pairs in every syntax); '
             'value sequences of <= %d values (colors from a %d-element representative subset when combined), both serialisations of the '
             'optional separator, with and without `!`; syntaxes %s; option sets with <= %d deviations over %s. The cases are expanded `+`-joined in batches of 40 (one property per '
             'line), every batch with members that match no snippet at the front, in the middle, at the end or nowhere, in turn. '
             'Transition = one more value / one option toggle.' % (
                 [k[0] for k in KEYS], [n[0] for n in NUM_LITS], SUFFIXES, CH6, b['alphas'], b['seq'], b['pair_colors'],
                 list(SYNTAX_FMT), b['deviations'], list(OPTION_SPACE)),
        nontrivial='the sequence has >= 2 values, or a color with a channel that is not a doubled digit / has alpha.',
        bounds=b,
        assumptions=['every joined batch is first expanded under wholly different options through a cache that the checked call shares', '4-, 5-, 7+-digit hex, #t, -0, more than 3 decimals, keyword values and stylesheet.json are left unspecified',
                     'no cache is used (C08); batching with + can only cost time: a disagreeing batch is re-run case by case'],
        explanation='Each batch is expanded by emmet.expand and every output line is compared with the reference rendering.',
    )


# ---------------------------------------------------------------- values
def numbers():
    for lit, isf in NUM_LITS:
        for u in SUFFIXES:
            yield ('n', lit + u, lit, isf, u)


def color(hexs, alpha):
    n = len(hexs)
    h = hexs.lower()
    if n == 1:
        rgb = (int(h * 2, 16),) * 3
    elif n == 2:
        rgb = (int(h, 16),) * 3
    elif n == 3:
        rgb = tuple(int(c * 2, 16) for c in h)
    else:
        rgb = tuple(int(h[i:i + 2], 16) for i in (0, 2, 4))
    return ('c', '#' + hexs + alpha, rgb, float(alpha) if alpha else 1.0)


def all_colors(alphas, six=True):
    for a in alphas:
        for d in HEX:
            yield color(d, a)
        for d in itertools.product(HEX, repeat=2):
            yield color(''.join(d), a)
        for d in itertools.product(HEX, repeat=3):
            yield color(''.join(d), a)
    if six:
        for a in alphas[:2]:
            for r, g, b in itertools.product(CH6, repeat=3):
                yield color(r + g + b, a)
            for pos in range(3):
                for v in range(256):
                    ch = ['12', 'ab', 'f0']
                    ch[pos] = '%02x' % v
                    yield color(''.join(ch), a)
        for d in ('FC0', 'E7BC0B', 'F', 'A1', '0B0b0B'):
            yield color(d, '')
            yield color(d, '.5')


REP_COLORS = [color(h, a) for h, a in [('f', ''), ('0', ''), ('0b', ''), ('e7', '.5'), ('fc0', ''), ('0b1', '.25'), ('abc', ''),
                                       ('e7bc0b', ''), ('ffcc00', ''), ('010203', '.5'), ('100f0e', ''), ('0', '.0'),
                                       ('b', ''), ('1', '.5'), ('10', ''), ('7f', ''), ('123', ''), ('a0b', ''), ('00b', '.5'),
                                       ('0a0b0c', ''), ('aabbcc', ''), ('aabbc0', ''), ('000001', ''), ('0f0f0f', ''),
                                       ('f0f0f0', ''), ('FFCC00', ''), ('FC0', '.5'), ('1', ''), ('a', '.0'), ('09', ''),
                                       ('90', ''), ('009', ''), ('900', ''), ('000900', ''), ('090000', ''), ('000009', ''),
                                       ('808080', '.25'), ('8', ''), ('88', ''), ('080808', '')]]


def fmtnum(lit):
    v = float(lit)
    s = ('%.4f' % v).rstrip('0').rstrip('.')
    return s if s not in ('-0', '') else '0'


def render_number(v, unitless, opts):
    _, _, lit, isf, u = v
    aliases = opts.get('stylesheet.unitAliases') or ALIAS
    if u:
        return fmtnum(lit) + aliases.get(u, u)
    if float(lit) == 0 or unitless:
        return fmtnum(lit)
    return fmtnum(lit) + (opts.get('stylesheet.floatUnit', 'em') if isf else opts.get('stylesheet.intUnit', 'px'))


def parse_color(s):
    if s == 'transparent':
        return (0, 0, 0), 0.0, 'transparent'
    m = re.match(r'^#([0-9a-fA-F]{3})$', s)
    if m:
        return tuple(int(c * 2, 16) for c in m.group(1)), 1.0, 'short'
    m = re.match(r'^#([0-9a-fA-F]{6})$', s)
    if m:
        return tuple(int(m.group(1)[i:i + 2], 16) for i in (0, 2, 4)), 1.0, 'long'
    m = re.match(r'^rgba\((\d+), ?(\d+), ?(\d+), ?([\d.]+)\)$', s)
    if m:
        return (int(m.group(1)), int(m.group(2)), int(m.group(3))), float(m.group(4)), 'rgba'
    return None


def serialize(key, vals, imp, min_sep=False):
    s = key
    prev = None
    for v in vals:
        lit = v[1]
        if prev is not None:
            unitless_prev = prev[0] == 'c' or (prev[0] == 'n' and not prev[4])
            if unitless_prev:
                if not (min_sep and prev[0] == 'n' and lit[0] == '#'):
                    s += '-'
        s += lit
        prev = v
    return s + ('!' if imp else '')


def split_vals(s):
    out = []
    d = 0
    cur = ''
    for ch in s:
        if ch == '(':
            d += 1
        if ch == ')':
            d -= 1
        if ch == ' ' and d == 0:
            out.append(cur)
            cur = ''
        else:
            cur += ch
    out.append(cur)
    return out


def check_line(case, line, syntax, opts):
    """case = (key, prop, unitless, vals, imp, min_sep) -> None or (class, detail)"""
    key, prop, unitless, vals, imp, min_sep = case
    between, after = SYNTAX_FMT[syntax]
    if opts.get('stylesheet.between') is not None:
        between = opts['stylesheet.between']
    if opts.get('stylesheet.after') is not None:
        after = opts['stylesheet.after']
    head = prop + between
    if not line.startswith(head):
        return 'line:property-or-between', dict(expected_prefix=head, actual=line)
    body = line[len(head):]
    if after:
        if not body.endswith(after):
            return 'line:after', dict(expected_suffix=after, actual=line)
        body = body[:len(body) - len(after)]
    has_imp = body.endswith(' !important')
    if has_imp:
        body = body[:-len(' !important')]
    if has_imp != imp:
        return 'line:important', dict(expected=imp, actual=line)
    got = split_vals(body)
    if len(got) != len(vals):
        return 'values:count', dict(expected=len(vals), actual=got, line=line)
    short_hex = opts.get('stylesheet.shortHex', True)
    for g, v in zip(got, vals):
        if v[0] == 'n':
            want = render_number(v, unitless, opts)
            if g != want:
                return 'number:%s' % ('unit' if g.lstrip('-0123456789.') != want.lstrip('-0123456789.') else 'value'), \
                    dict(expected=want, actual=g, line=line)
        else:
            pc = parse_color(g)
            if pc is None:
                return 'color:unparsable', dict(actual=g, line=line)
            if pc[0] != v[2] or abs(pc[1] - v[3]) > 1e-9:
                return 'color:value-changed', dict(expected=[v[2], v[3]], actual=[pc[0], pc[1]], text=g)
            if (v[3] != 1.0) != (pc[2] in ('rgba', 'transparent')):
                return 'color:rgba-spelling', dict(expected_alpha=v[3], text=g)
            if v[3] == 1.0:
                can_short = all(c % 17 == 0 for c in v[2])
                if (pc[2] == 'short') != (can_short and short_hex):
                    return 'color:short-hex-spelling', dict(rgb=v[2], shortHex=short_hex, text=g)
    return None


UNMATCHED = ('x9', 'k9')       # no stylesheet snippet key starts with x or k: dropped under the default stylesheet.skipUnmatched


def with_unmatched(abbrs, where):
    "the `+`-joined abbreviation with members that match no snippet at the front / in the middle / at the end / nowhere"
    a = list(abbrs)
    if where == 1:
        a = [UNMATCHED[0]] + a
    elif where == 2:
        a = a[:len(a) // 2 + 1] + [UNMATCHED[1]] + a[len(a) // 2 + 1:] + [UNMATCHED[0]]
    elif where == 3:
        a = [UNMATCHED[0], UNMATCHED[1]] + a + [UNMATCHED[1]]
    return '+'.join(a)


PRIME = {'stylesheet.intUnit': 'qi', 'stylesheet.floatUnit': 'qf', 'stylesheet.unitAliases': {'p': 'qp', 'e': 'qe', 'x': 'qx', 'r': 'qr'},
         'stylesheet.shortHex': False, 'stylesheet.between': '=', 'stylesheet.after': '$'}


def cfg_of(syntax, o, **extra):
    "call configuration: `context` travels with the option deviations but is a key of its own"
    o = dict(o)
    ctx_name = o.pop('context', None)
    cfg = dict({'type': 'stylesheet', 'syntax': syntax, 'options': o}, **extra)
    if ctx_name:
        cfg['context'] = {'name': ctx_name}
    return cfg


def batch_ok(cases, abbrs, syntax, opts, where):
    o = dict((k, v) for k, v in opts.items() if v is not None)
    joined = with_unmatched(abbrs, where)
    # the same text is expanded first under wholly different unit / colour / punctuation options through a cache that the
    # checked call then shares: nothing of the first call may show in the second
    cache = {}
    try:
        expand(joined, {'type': 'stylesheet', 'syntax': syntax, 'options': dict(PRIME), 'cache': cache})
    except Exception:
        pass
    try:
        out = expand(joined, cfg_of(syntax, o, cache=cache))
    except Exception:
        return False
    lines = out.split('\n')
    return len(lines) == len(cases) and all(check_line(c, l, syntax, opts) is None for c, l in zip(cases, lines))


def run_batch(cases, syntax, opts, ctx, where=0):
    abbrs = [serialize(c[0], c[3], c[4], c[5]) for c in cases]
    o = dict((k, v) for k, v in opts.items() if v is not None)
    ctx.evals += 1
    if batch_ok(cases, abbrs, syntax, opts, where):
        return
    ctx.extra['batches_rerun_case_by_case'] += 1
    any_bad = False
    for c, a in zip(cases, abbrs):
        ctx.evals += 1
        bad = single(c, a, syntax, opts)
        if bad:
            any_bad = True
            ctx.violation(bad[0] + suffix(o), dict(abbr=a, syntax=syntax, options=o, case=case_json(c)), bad[1])
    if not any_bad:
        # every member is right alone but the joined abbreviation is not "one property per line": shrink the batch greedily
        keep = list(range(len(cases)))
        i = 0
        ctx.extra['batch_only_failures'] += 1
        # (the first few are shrunk to a minimal joined abbreviation; a defect that hits every batch would otherwise cost 40^2 expansions each)
        while ctx.extra['batch_only_failures'] <= 3 and i < len(keep) and len(keep) > 1:
            trial = keep[:i] + keep[i + 1:]
            if not batch_ok([cases[j] for j in trial], [abbrs[j] for j in trial], syntax, opts, where):
                keep = trial
            else:
                i += 1
        joined = with_unmatched([abbrs[j] for j in keep], where)
        try:
            out = expand(joined, cfg_of(syntax, o))
        except Exception as e:
            out = 'EXC:' + type(e).__name__
        ctx.violation('joined:not-one-property-per-line' + suffix(o),
                      dict(joined=[case_json(cases[j]) for j in keep], abbrs=[abbrs[j] for j in keep], where=where, syntax=syntax, options=o),
                      dict(abbr=joined, actual=out))


def suffix(o):
    "violation classes are kept apart per set of deviating options, so that each gets its own minimal witness"
    return ('|' + ','.join(sorted(o))) if o else ''


def single(c, abbr, syntax, opts):
    o = dict((k, v) for k, v in opts.items() if v is not None)
    try:
        out = expand(abbr, cfg_of(syntax, o))
    except Exception as e:
        return 'exception:%s' % type(e).__name__, dict(abbr=abbr, error=str(e)[:120])
    if '\n' in out:
        return 'line:count', dict(abbr=abbr, actual=out)
    return check_line(c, out, syntax, opts)


def case_json(c):
    return dict(key=c[0], prop=c[1], unitless=c[2], vals=[list(v) for v in c[3]], imp=c[4], min_sep=c[5])


def case_from_json(j):
    vals = []
    for v in j['vals']:
        if v[0] == 'n':
            vals.append(tuple(v))
        else:
            vals.append(('c', v[1], tuple(v[2]), v[3]))
    return (j['key'], j['prop'], j['unitless'], tuple(vals), j['imp'], j['min_sep'])


# ---------------------------------------------------------------- case generators (deterministic, sliceable)
def gen_cases(name, tier):
    b = BOUNDS[tier]
    nums = list(numbers())
    if name == 'colors':
        for col in all_colors(b['alphas'], b['six']):
            yield ('c', 'color', False, (col,), False, False)
    elif name == 'colors6':
        ch = ['00', '01', '0f', '10', '11', '1f', '7f', '80', '88', '99', 'a0', 'aa', 'bb', 'f0', 'fe', 'ff']
        for a in ('', '.5', '.75'):
            for r, g, bb in itertools.product(ch, repeat=3):
                yield ('c', 'color', False, (color(r + g + bb, a),), False, False)
                if a == '':
                    yield ('bd', 'border', False, (color((r + g + bb).upper(), a), ('n', '1', '1', False, '')), False, False)
    elif name == 'singles':
        for key, prop, ul in KEYS:
            for v in nums + REP_COLORS[:b['pair_colors']]:
                if key == 'c' and v[0] == 'n':
                    continue
                for imp in (False, True):
                    yield (key, prop, ul, (v,), imp, False)
    elif name == 'pairs':
        vals = nums + REP_COLORS[:b['pair_colors']]
        for key, prop, ul in KEYS[:6]:
            for a in vals:
                for c in vals:
                    for ms in ((False, True) if (a[0] == 'n' and not a[4] and c[0] == 'c') else (False,)):
                        yield (key, prop, ul, (a, c), False, ms)
            for a in vals[::5]:
                for c in vals[::3]:
                    yield (key, prop, ul, (a, c), True, False)
    elif name == 'triples':
        vals = nums[::3] + nums[1::7] + REP_COLORS[:10]
        for key, prop, ul in (KEYS[0], KEYS[2], KEYS[5]):
            for t in itertools.product(vals, repeat=3):
                yield (key, prop, ul, t, False, False)
    elif name == 'config':
        vals = nums + REP_COLORS[:b['pair_colors']]
        for key, prop, ul in (KEYS[0], KEYS[2], KEYS[5]):
            for v in vals:
                yield (key, prop, ul, (v,), False, False)
            for a in vals[::4]:
                for c in vals[::5]:
                    yield (key, prop, ul, (a, c), True, False)


NSH = 16


def shards(tier):
    b = BOUNDS[tier]
    out = []
    for name in ('colors', 'singles', 'pairs') + (('triples', 'colors6') if b['seq'] >= 3 else ()):
        for k in range(NSH):
            out.append(dict(gen=name, syntax='css', opts={}, k=k, of=NSH))
    if b['seq'] >= 3:
        for syn in list(SYNTAX_FMT)[1:]:
            for k in range(4):
                out.append(dict(gen='pairs', syntax=syn, opts={}, k=k, of=4))
    for syn in list(SYNTAX_FMT)[1:]:
        for k in range(2):
            out.append(dict(gen='config', syntax=syn, opts={}, k=k, of=2))
    for i, dev in enumerate(explore.deviations(OPTION_SPACE, b['deviations'])):
        if dev:
            out.append(dict(gen='config', syntax='css' if i % 2 else 'stylus', opts=dev, k=0, of=1))
    return out


def nontrivial(c):
    vals = c[3]
    if len(vals) >= 2:
        return True
    v = vals[0]
    return v[0] == 'c' and (v[3] != 1.0 or any(ch % 17 for ch in v[2]))


def run_shard(shard, ctx, tier):
    syntax, opts = shard['syntax'], shard['opts']
    k, of = shard['k'], shard['of']
    batch = []
    nb = 0
    last = None
    for i, c in enumerate(gen_cases(shard['gen'], tier)):
        if i % of != k:
            continue
        ctx.tick(c[:2])
        ctx.states += 1
        ctx.transitions += 1
        ctx.validated += 1
        if nontrivial(c):
            ctx.nontrivial += 1
        ctx.outcome((c[0], tuple((v[0], v[1][:1], v[4] if v[0] == 'n' else v[3]) for v in c[3]), c[4]))
        batch.append(c)
        last = c
        if len(batch) >= BATCH:
            nb += 1
            run_batch(batch, syntax, opts, ctx, nb % 4)
            batch = []
    if batch:
        run_batch(batch, syntax, opts, ctx, (nb + 1) % 4)
    if last:
        ctx.sample(dict(abbr=serialize(last[0], last[3], last[4], last[5]), syntax=syntax, options=opts))


def check_case(case):
    if 'joined' in case:
        cases = [case_from_json(j) for j in case['joined']]
        opts = dict(case.get('options') or {})
        if batch_ok(cases, case['abbrs'], case['syntax'], opts, case['where']):
            return []
        o = dict((k, v) for k, v in opts.items() if v is not None)
        return [('joined:not-one-property-per-line' + suffix(o), dict(abbr=with_unmatched(case['abbrs'], case['where'])))]
    c = case_from_json(case['case'])
    opts = dict(case.get('options') or {})
    bad = single(c, case['abbr'], case['syntax'], opts)
    return [(bad[0] + suffix(dict((k, v) for k, v in opts.items() if v is not None)), bad[1])] if bad else []


def repro(case):
    if 'joined' in case:
        return 'from emmet import expand\nprint(expand(%r, %r))\n' % (
            with_unmatched(case['abbrs'], case['where']), {'type': 'stylesheet', 'syntax': case['syntax'], 'options': case.get('options') or {}})
    return 'from emmet import expand\nprint(expand(%r, %r))\n' % (
        case['abbr'], {'type': 'stylesheet', 'syntax': case['syntax'], 'options': case.get('options') or {}})
