#!/usr/bin/env python3
"Prints the markdown table of seeded changes (from seeded/*/meta.json and seeded/FIRST_EVAL.json)."
import json, glob, os
ROOT = os.path.dirname(os.path.dirname(os.path.abspath(__file__)))
first = json.load(open(os.path.join(ROOT, 'seeded', 'FIRST_EVAL.json')))['missed_at_first_evaluation']
rows = []
for d in sorted(glob.glob(os.path.join(ROOT, 'seeded', 'C*-*'))):
    n = os.path.basename(d)
    m = json.load(open(os.path.join(d, 'meta.json')))
    checks = m.get('evaluation', {}).get('checks', {})
    by = ', '.join(c for c, v in sorted(checks.items()) if v['caught']) or '-'
    rows.append((n, 'no' if n in first else 'yes', by, m.get('summary', '').replace('\n', ' ').replace('|', '/')[:150]))
print('| change | detected at first evaluation | detected now by | what it does |')
print('|---|---|---|---|')
for r in rows:
    print('| %s | %s | %s | %s |' % r)
w1 = [r for r in rows if r[0][-1] in 'AB']
w2 = [r for r in rows if r[0][-1] in 'CD']
w3 = [r for r in rows if r[0][-1] in 'EF']
w4 = [r for r in rows if r[0][-1] in 'GH']
w5 = [r for r in rows if r[0][-1] in 'IJ']
w6 = [r for r in rows if r[0][-1] in 'KL']
w7 = [r for r in rows if r[0][-1] in 'MN']
w8 = [r for r in rows if r[0][-1] in 'OP']
w9 = [r for r in rows if r[0][-1] in 'QR']
w10 = [r for r in rows if r[0][-1] in 'ST']
w11 = [r for r in rows if r[0][-1] in 'UV']
w12 = [r for r in rows if r[0][-1] in 'WX']
w13 = [r for r in rows if r[0][-1] in 'YZ']
w14 = [r for r in rows if r[0][-1] in '12']
w15 = [r for r in rows if r[0][-1] in '34']
for name, w in (('wave 1 (A/B)', w1), ('wave 2 (C/D)', w2), ('wave 3 (E/F)', w3), ('wave 4 (G/H)', w4), ('wave 5 (I/J)', w5), ('wave 6 (K/L)', w6), ('wave 7 (M/N)', w7), ('wave 8 (O/P)', w8), ('wave 9 (Q/R, uninformed agents)', w9), ('wave 10 (S/T, uninformed agents)', w10),
                ('wave 11 (U/V, round 2, uninformed agents)', w11),
                ('wave 12 (W/X, round 2, uninformed agents)', w12),
                ('wave 13 (Y/Z, round 2, uninformed agents)', w13),
                ('wave 14 (1/2, round 2, uninformed agents)', w14),
                ('wave 15 (3/4, round 2, uninformed agents)', w15)):
    if w:
        print('\n%s: %d changes, %d detected at first evaluation, %d detected now' % (
            name, len(w), sum(1 for r in w if r[1] == 'yes'), sum(1 for r in w if r[2] != '-')))
