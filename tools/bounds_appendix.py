#!/usr/bin/env python3
"""Prints DESIGN.md appendix A: the explored spaces as built, generated from mc/props/cNN.describe() (so it cannot drift from the code),
with the counts of the latest evidence files where available.   usage: PYTHONPATH=/repo:/verif /venv/bin/python tools/bounds_appendix.py"""
import importlib, json, os, sys
ROOT = os.path.dirname(os.path.dirname(os.path.abspath(__file__)))
sys.path.insert(0, ROOT)
for i in range(1, 21):
    pid = 'C%02d' % i
    mod = importlib.import_module('mc.props.' + pid.lower())
    print('### %s' % pid)
    for tier in ('quick', 'thorough'):
        d = mod.describe(tier)
        print('* **%s**: %s' % (tier, d['rule'].replace('\n', ' ')))
    d = mod.describe('quick')
    print('* non-trivial: %s' % d.get('nontrivial', ''))
    print('* left unspecified / assumed: %s' % '; '.join(d.get('assumptions', [])))
    ev = os.path.join(ROOT, 'evidence', pid + '.json')
    if os.path.exists(ev):
        e = json.load(open(ev))
        c = e['coverage']
        print('* latest evidence (%s tier, %.1f s): states=%d transitions=%d executions=%d compared=%d distinct outcomes=%d' % (
            e['tier'], e['wall_s'], c['states'], c['transitions'], c['evaluations'], c['traces_validated_against_impl'], c['distinct_outcomes']))
    print()
