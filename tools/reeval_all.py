#!/usr/bin/env python3
"""Final re-evaluation: applies every kept seeded change to a scratch worktree of /repo HEAD and runs the quick check(s) that are
recorded as detecting it (no pytest / demo run: those were confirmed at ingestion).  Writes seeded/<id>/meta.json
["final_evaluation"] and prints a summary.   usage: tools/reeval_all.py [first-id [last-id]]"""
import sys, os, json, glob, subprocess, tempfile, shutil, time

VERIF = os.path.dirname(os.path.dirname(os.path.abspath(__file__)))
REPO = '/repo'


def sh(cmd, **kw):
    return subprocess.run(cmd, shell=True, capture_output=True, text=True, **kw)


def main():
    dirs = sorted(glob.glob(os.path.join(VERIF, 'seeded', 'C*-*')))
    lo = sys.argv[1] if len(sys.argv) > 1 else ''
    hi = sys.argv[2] if len(sys.argv) > 2 else 'Z'
    head = sh('git -C %s rev-parse --short HEAD' % REPO).stdout.strip()
    lost = []
    for d in dirs:
        name = os.path.basename(d)
        if not (lo <= name <= hi + '~'):
            continue
        meta = json.load(open(os.path.join(d, 'meta.json')))
        checks = [c for c, v in sorted(meta.get('evaluation', {}).get('checks', {}).items()) if v.get('caught')]
        if not checks:
            print('%-7s recorded as not detected (by decision)' % name, flush=True)
            continue
        wt = tempfile.mkdtemp(prefix='reevalwt_', dir='/tmp')
        os.rmdir(wt)
        tmp = tempfile.mkdtemp(prefix='reevalout_', dir='/tmp')
        res = {}
        try:
            r = sh('git -C %s worktree add -q --detach %s HEAD' % (REPO, wt))
            assert r.returncode == 0, r.stderr
            r = sh('git -C %s apply %s/patch.diff' % (wt, d))
            if r.returncode:
                print('%-7s PATCH DOES NOT APPLY' % name, flush=True)
                lost.append(name)
                continue
            for c in checks[:1] if len(checks) > 1 and checks[0] == meta['property'] else checks:
                t0 = time.time()
                r = sh('VERIF_STOP_ON_FIRST=1 EMMET_REPO=%s VERIF_EVIDENCE_DIR=%s VERIF_REPLAY_DIR=%s ./check %s quick' % (wt, tmp, tmp, c), cwd=VERIF)
                caught = r.returncode == 1 and 'VIOLATION' in r.stdout
                res[c] = dict(caught=caught, exit=r.returncode, wall_s=round(time.time() - t0, 1))
                if caught:
                    break
        finally:
            sh('git -C %s worktree remove --force %s' % (REPO, wt))
            sh('git -C %s worktree prune' % REPO)
            shutil.rmtree(wt, ignore_errors=True)
            shutil.rmtree(tmp, ignore_errors=True)
        ok = any(v['caught'] for v in res.values())
        meta['final_evaluation'] = dict(repo_head=head, checks=res, detected=ok)
        json.dump(meta, open(os.path.join(d, 'meta.json'), 'w'), indent=1)
        print('%-7s %s %s' % (name, 'detected' if ok else 'NOT DETECTED', res), flush=True)
        if not ok:
            lost.append(name)
    print('finished; not detected: %s' % lost, flush=True)


if __name__ == '__main__':
    main()
