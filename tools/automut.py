#!/usr/bin/env python3
"""Automatic first-order mutants of the anchored library files, as a second (mechanical) source of property-breaking
changes next to the hand-made ones under seeded/.  Validation aid only: nothing here decides a property.

usage: tools/automut.py gen                      list the mutants (writes /tmp/automut/mutants.json)
       tools/automut.py filter [N_PROCS]         run the pinned test suite on every mutant, keep the survivors
       tools/automut.py run K [OFFSET] [STRIDE]  evaluate survivors OFFSET, OFFSET+STRIDE, ... (K of them) with the quick checks
                                                 of the properties whose anchors name the mutated file (stop on first violation)
       tools/automut.py report                   table of the evaluated mutants

Mutation operators (one token each, applied textually at the position the ast reports):
  comparison swap (< <=, > >=, == !=, in / not in), and/or swap, `not` dropped, True/False swap, small integer constant +-1,
  statement deletion (expression statements that are calls, augmented assignments, attribute / subscript assignments).
Scratch worktrees live under /tmp/automut and are removed by `clean`."""
import ast, json, os, subprocess, sys, time, shutil, hashlib

REPO = '/repo'
VERIF = os.path.dirname(os.path.dirname(os.path.abspath(__file__)))
WORK = '/tmp/automut'
OUT = os.path.join(WORK, 'mutants.json')

SWAP = {ast.Lt: '<=', ast.LtE: '<', ast.Gt: '>=', ast.GtE: '>', ast.Eq: '!=', ast.NotEq: '==', ast.In: 'not in', ast.NotIn: 'in'}
TXT = {ast.Lt: '<', ast.LtE: '<=', ast.Gt: '>', ast.GtE: '>=', ast.Eq: '==', ast.NotEq: '!=', ast.In: 'in', ast.NotIn: 'not in'}


def anchors():
    m = {}
    for l in open(os.path.join(VERIF, 'properties.jsonl')):
        p = json.loads(l)
        for f in p['anchors']['files']:
            m.setdefault(f, []).append(p['id'])
    return m


def offsets(src):
    offs, o = [0], 0
    for line in src.splitlines(keepends=True):
        o += len(line.encode('utf-8'))
        offs.append(o)
    return offs


def mutants_of(path, rel):
    src = open(path, encoding='utf-8').read()
    b = src.encode('utf-8')
    tree = ast.parse(src)
    offs = offsets(src)

    def pos(n, end=False):
        return offs[(n.end_lineno if end else n.lineno) - 1] + (n.end_col_offset if end else n.col_offset)

    res = []

    def add(s, e, new, kind, line):
        res.append(dict(file=rel, start=s, end=e, new=new, old=b[s:e].decode('utf-8'), kind=kind, line=line))

    for n in ast.walk(tree):
        if isinstance(n, ast.Compare):
            left = n.left
            for op, right in zip(n.ops, n.comparators):
                if type(op) in SWAP:
                    s, e = pos(left, True), pos(right)
                    seg = b[s:e].decode('utf-8')
                    t = TXT[type(op)]
                    i = seg.find(t)
                    if i >= 0 and '\n' not in seg and '(' not in seg and ')' not in seg:
                        add(s + i, s + i + len(t), SWAP[type(op)], 'cmp', n.lineno)
                left = right
        elif isinstance(n, ast.BoolOp):
            for a, c in zip(n.values, n.values[1:]):
                s, e = pos(a, True), pos(c)
                seg = b[s:e].decode('utf-8')
                t = 'and' if isinstance(n.op, ast.And) else 'or'
                i = seg.find(' ' + t + ' ')
                if i >= 0 and '(' not in seg and ')' not in seg:
                    add(s + i + 1, s + i + 1 + len(t), 'or' if t == 'and' else 'and', 'bool', n.lineno)
        elif isinstance(n, ast.UnaryOp) and isinstance(n.op, ast.Not):
            s = pos(n)
            if b[s:s + 4] == b'not ':
                add(s, s + 4, '', 'not', n.lineno)
        elif isinstance(n, ast.Constant) and n.value is True:
            add(pos(n), pos(n, True), 'False', 'const', n.lineno)
        elif isinstance(n, ast.Constant) and n.value is False:
            add(pos(n), pos(n, True), 'True', 'const', n.lineno)
        elif isinstance(n, ast.Constant) and type(n.value) is int and 0 <= n.value <= 3:
            add(pos(n), pos(n, True), str(n.value + 1), 'int+', n.lineno)
            if n.value > 0:
                add(pos(n), pos(n, True), str(n.value - 1), 'int-', n.lineno)
        elif isinstance(n, (ast.Expr, ast.AugAssign, ast.Assign)):
            ok = (isinstance(n, ast.Expr) and isinstance(n.value, ast.Call)) or isinstance(n, ast.AugAssign) or \
                 (isinstance(n, ast.Assign) and all(isinstance(t, (ast.Attribute, ast.Subscript)) for t in n.targets))
            if ok and n.lineno == n.end_lineno:
                add(pos(n), pos(n, True), 'pass', 'del', n.lineno)
    return res


def cmd_gen():
    os.makedirs(WORK, exist_ok=True)
    anc = anchors()
    allm = []
    for rel in sorted(anc):
        p = os.path.join(REPO, rel)
        if not os.path.exists(p) or rel.startswith('emmet/snippets/'):
            continue
        ms = mutants_of(p, rel)
        for m in ms:
            m['props'] = anc[rel]
        allm += ms
    # keep the test verdicts of an earlier run for files whose contents did not change
    prev = {}
    if os.path.exists(OUT):
        for m in json.load(open(OUT)):
            if 'tests' in m and 'sha' in m:
                prev[(m['file'], m['sha'], m['start'], m['end'], m['new'])] = m['tests']
    for i, m in enumerate(allm):
        m['id'] = i
        m['sha'] = hashlib.sha1(open(os.path.join(REPO, m['file']), 'rb').read()).hexdigest()
        t = prev.get((m['file'], m['sha'], m['start'], m['end'], m['new']))
        if t:
            m['tests'] = t
    json.dump(allm, open(OUT, 'w'), indent=0)
    print(len(allm), 'mutants over', len({m['file'] for m in allm}), 'files')


def worktree(k):
    wt = os.path.join(WORK, 'wt%d' % k)
    head = subprocess.run('git -C %s rev-parse HEAD' % REPO, shell=True, capture_output=True, text=True).stdout.strip()
    if os.path.exists(wt) and subprocess.run('git -C %s rev-parse HEAD' % wt, shell=True, capture_output=True, text=True).stdout.strip() != head:
        subprocess.run('git -C %s worktree remove --force %s' % (REPO, wt), shell=True)
    if not os.path.exists(wt):
        subprocess.run('git -C %s worktree add -q --detach %s HEAD' % (REPO, wt), shell=True, check=True)
    return wt


def apply(wt, m):
    subprocess.run('git -C %s checkout -q -- .' % wt, shell=True, check=True)
    p = os.path.join(wt, m['file'])
    b = open(p, 'rb').read()
    assert b[m['start']:m['end']].decode('utf-8') == m['old'], m
    open(p, 'wb').write(b[:m['start']] + m['new'].encode('utf-8') + b[m['end']:])


def cmd_filter(nprocs):
    allm = json.load(open(OUT))
    todo = [m for m in allm if 'tests' not in m]
    from multiprocessing import Pool
    chunks = [todo[k::nprocs] for k in range(nprocs)]
    with Pool(nprocs) as pool:
        done = pool.starmap(filter_chunk, [(k, c) for k, c in enumerate(chunks)])
    byid = {m['id']: m for ch in done for m in ch}
    allm = [byid.get(m['id'], m) for m in allm]
    json.dump(allm, open(OUT, 'w'), indent=0)
    print('survive tests:', sum(1 for m in allm if m.get('tests') == 'pass'), 'of', len(allm))


def filter_chunk(k, chunk):
    wt = worktree(k)
    for m in chunk:
        apply(wt, m)
        try:
            r = subprocess.run('cd %s && PYTHONPATH=%s PYTHONDONTWRITEBYTECODE=1 timeout 120 /venv/bin/python -m pytest -q -x -p no:cacheprovider 2>&1 | tail -1' % (wt, wt),
                               shell=True, capture_output=True, text=True)
            m['tests'] = 'pass' if '141 passed' in r.stdout else 'fail'
        except Exception as e:
            m['tests'] = 'error'
    subprocess.run('git -C %s checkout -q -- .' % wt, shell=True)
    return chunk


COST = dict(C14=4, C18=7, C02=9, C19=10, C04=11, C20=16, C13=24, C17=24, C12=26, C15=27, C03=28, C09=30, C07=35, C08=39, C05=42,
            C06=44, C16=60, C10=88, C11=103, C01=147)


def cmd_run(k, offset, stride):
    allm = json.load(open(OUT))
    surv = [m for m in allm if m.get('tests') == 'pass']
    resf = os.path.join(WORK, 'results.jsonl')
    seen = set()
    if os.path.exists(resf):
        seen = {json.loads(l)['id'] for l in open(resf)}
    wt = worktree(100 + offset)
    tmp = os.path.join(WORK, 'out%d' % offset)
    n = 0
    for m in surv[offset::stride]:
        if n >= k:
            break
        if m['id'] in seen:
            continue
        n += 1
        apply(wt, m)
        rec = dict(id=m['id'], file=m['file'], line=m['line'], kind=m['kind'], old=m['old'], new=m['new'], checks={}, caught=False)
        for c in sorted(m['props'], key=lambda c: COST.get(c, 50)):
            shutil.rmtree(tmp, ignore_errors=True)
            t0 = time.time()
            env = dict(os.environ, EMMET_REPO=wt, VERIF_EVIDENCE_DIR=tmp, VERIF_REPLAY_DIR=tmp, VERIF_STOP_ON_FIRST='1')
            try:
                r = subprocess.run(['./check', c, 'quick'], cwd=VERIF, env=env, capture_output=True, text=True, timeout=900)
                lines = [l[:300] for l in r.stdout.splitlines() if l.startswith(('VIOLATION', 'HARNESS'))]
                rec['checks'][c] = dict(exit=r.returncode, wall_s=round(time.time() - t0, 1), first=lines[:1])
                if r.returncode == 1 and lines:
                    rec['caught'] = True
                    break
            except subprocess.TimeoutExpired:
                rec['checks'][c] = dict(exit='timeout', wall_s=900)
        with open(resf, 'a') as f:
            f.write(json.dumps(rec) + '\n')
        print(rec['id'], rec['file'], rec['line'], rec['kind'], repr(rec['old']), '->', repr(rec['new']), 'CAUGHT' if rec['caught'] else 'survived',
              {c: v['exit'] for c, v in rec['checks'].items()}, flush=True)
    subprocess.run('git -C %s checkout -q -- .' % wt, shell=True)


def cmd_report():
    resf = os.path.join(WORK, 'results.jsonl')
    recs = [json.loads(l) for l in open(resf)]
    print('evaluated', len(recs), 'caught', sum(r['caught'] for r in recs))
    for r in recs:
        if not r['caught']:
            print('SURVIVED', r['id'], r['file'], 'line', r['line'], r['kind'], repr(r['old']), '->', repr(r['new']), {c: v['exit'] for c, v in r['checks'].items()})


def cmd_clean():
    for d in os.listdir(WORK):
        if d.startswith('wt'):
            subprocess.run('git -C %s worktree remove --force %s' % (REPO, os.path.join(WORK, d)), shell=True)
    subprocess.run('git -C %s worktree prune' % REPO, shell=True)


if __name__ == '__main__':
    c = sys.argv[1]
    if c == 'gen':
        cmd_gen()
    elif c == 'filter':
        cmd_filter(int(sys.argv[2]) if len(sys.argv) > 2 else 12)
    elif c == 'run':
        cmd_run(int(sys.argv[2]), int(sys.argv[3]) if len(sys.argv) > 3 else 0, int(sys.argv[4]) if len(sys.argv) > 4 else 1)
    elif c == 'report':
        cmd_report()
    elif c == 'clean':
        cmd_clean()
