#!/usr/bin/env python3
"""Evaluates the checks against one seeded property-breaking change.

usage: tools/eval_seeded.py <dir with patch.diff, demo.py, meta.json> [check ids ...]   (default: the property the change breaks)

Works on a scratch git worktree of /repo under /tmp (EMMET_REPO), never on /repo itself:
  1. patch applies; 2. the pinned test suite passes with the change; 3. demo.py fails with the change and passes without;
  4. each requested check (quick tier) is run against the changed tree: exit 1 + VIOLATION expected.
Evidence / replays of these runs go to a temporary directory; the scratch worktree is removed afterwards.
Prints one JSON object."""
import sys, os, json, subprocess, tempfile, shutil, time

REPO = '/repo'
VERIF = os.path.dirname(os.path.dirname(os.path.abspath(__file__)))


def sh(cmd, **kw):
    return subprocess.run(cmd, shell=True, capture_output=True, text=True, **kw)


def main():
    d = os.path.abspath(sys.argv[1])
    meta = json.load(open(os.path.join(d, 'meta.json')))
    checks = sys.argv[2:] or [meta['property']]
    tier = os.environ.get('EVAL_TIER', 'quick')
    wt = tempfile.mkdtemp(prefix='evalwt_', dir='/tmp')
    os.rmdir(wt)
    out = dict(dir=d, property=meta['property'], checks={})
    try:
        r = sh('git -C %s worktree add -q --detach %s HEAD' % (REPO, wt))
        assert r.returncode == 0, r.stderr
        env = dict(os.environ, PYTHONPATH=wt, PYTHONDONTWRITEBYTECODE='1')
        r = sh('PYTHONPATH=%s /venv/bin/python %s/demo.py' % (wt, d), cwd=wt)
        out['demo_passes_without_change'] = r.returncode == 0
        r = sh('git -C %s apply %s/patch.diff' % (wt, d))
        out['patch_applies'] = r.returncode == 0
        if r.returncode:
            out['apply_error'] = r.stderr[-500:]
            return out
        r = sh('cd %s && PYTHONPATH=%s /venv/bin/python -m pytest -q -p no:cacheprovider 2>&1 | tail -1' % (wt, wt))
        out['tests_with_change'] = r.stdout.strip()
        out['tests_pass_with_change'] = '141 passed' in r.stdout
        r = sh('PYTHONPATH=%s /venv/bin/python %s/demo.py' % (wt, d), cwd=wt)
        out['demo_fails_with_change'] = r.returncode != 0
        tmp = tempfile.mkdtemp(prefix='evalout_', dir='/tmp')
        for c in checks:
            t0 = time.time()
            r = sh('EMMET_REPO=%s VERIF_EVIDENCE_DIR=%s VERIF_REPLAY_DIR=%s ./check %s %s' % (wt, tmp, tmp, c, tier), cwd=VERIF)
            lines = [l for l in r.stdout.splitlines() if l.startswith(('VIOLATION', 'HARNESS', 'KNOWN-FINDING', 'OK'))]
            out['checks'][c] = dict(exit=r.returncode, caught=r.returncode == 1 and any(l.startswith('VIOLATION') for l in lines),
                                    wall_s=round(time.time() - t0, 1), lines=[l[:400] for l in lines[:6]])
        shutil.rmtree(tmp, ignore_errors=True)
    finally:
        sh('git -C %s worktree remove --force %s' % (REPO, wt))
        sh('git -C %s worktree prune' % REPO)
        shutil.rmtree(wt, ignore_errors=True)
    return out


if __name__ == '__main__':
    res = main()
    print(json.dumps(res, indent=1))
