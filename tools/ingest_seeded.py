#!/usr/bin/env python3
"""Ingests seeded changes delivered by independent sub-agents: verifies each with tools/eval_seeded.py and, if the change is
confirmed (patch applies, 141 tests pass with it, demo fails with it and passes without it), stores it as /verif/seeded/<id>/.
usage: tools/ingest_seeded.py /tmp/mutants/C02/A [more dirs...]   [--checks C02,C07]"""
import sys, os, json, shutil, subprocess

VERIF = os.path.dirname(os.path.dirname(os.path.abspath(__file__)))


def main():
    args = [a for a in sys.argv[1:] if not a.startswith('--')]
    extra = [a.split('=', 1)[1].split(',') for a in sys.argv[1:] if a.startswith('--checks=')]
    for d in args:
        d = os.path.abspath(d)
        meta = json.load(open(os.path.join(d, 'meta.json')))
        prop = meta['property']
        letter = os.path.basename(d)
        name = '%s-%s' % (prop, letter)
        checks = extra[0] if extra else [prop]
        r = subprocess.run([os.path.join(VERIF, 'tools', 'eval_seeded.py'), d] + checks, capture_output=True, text=True)
        try:
            res = json.loads(r.stdout[r.stdout.index('{'):])
        except Exception:
            print(name, 'EVAL FAILED', r.stdout[-500:], r.stderr[-500:])
            continue
        confirmed = res.get('patch_applies') and res.get('tests_pass_with_change') and res.get('demo_fails_with_change') and res.get('demo_passes_without_change')
        caught = {c: v['caught'] for c, v in res['checks'].items()}
        print('%-8s confirmed=%s caught=%s  %s' % (name, bool(confirmed), caught, meta.get('summary', '')[:110]))
        if not confirmed:
            print('   not kept:', {k: res.get(k) for k in ('patch_applies', 'tests_with_change', 'demo_fails_with_change', 'demo_passes_without_change')})
            continue
        dest = os.path.join(VERIF, 'seeded', name)
        os.makedirs(dest, exist_ok=True)
        for f in ('patch.diff', 'demo.py'):
            shutil.copy(os.path.join(d, f), os.path.join(dest, f))
        old = {}
        if os.path.exists(os.path.join(dest, 'meta.json')):
            old = json.load(open(os.path.join(dest, 'meta.json'))).get('evaluation', {}).get('checks', {})
        old.update({c: dict(exit=v['exit'], caught=v['caught'], wall_s=v['wall_s'], first_lines=v['lines'][:2]) for c, v in res['checks'].items()})
        meta['evaluation'] = dict(
            ran='tools/eval_seeded.py: scratch worktree of /repo HEAD + patch; pinned pytest suite; demo.py with and without the change; '
                './check <ID> %s with EMMET_REPO pointing at the changed tree' % os.environ.get('EVAL_TIER', 'quick'),
            patch_applies=True, tests_with_change=res['tests_with_change'], demo_fails_with_change=True, demo_passes_without_change=True,
            checks=old)
        json.dump(meta, open(os.path.join(dest, 'meta.json'), 'w'), indent=1)


if __name__ == '__main__':
    main()
