#!/bin/bash
# Offline setup: nothing to build (pure Python explorers run against /repo's working tree).
# Verifies the interpreter, that emmet imports from /repo and that the explorer self-tests pass.
cd "$(dirname "$0")" || exit 2
chmod +x check
mkdir -p evidence
./check --selftest quick
